------------------------------- MODULE LinAlg -------------------------------
(***************************************************************************)
(* C13 - the small dense linear-algebra helpers solve what they are given. *)
(*                                                                         *)
(* Exact arithmetic over small integer matrices.  A matrix is a sequence   *)
(* of rows, a row a sequence of integers (what a JSON array of arrays      *)
(* deserialises to).  Everything stays inside TLC's 32-bit integers:       *)
(*   - determinants by fraction-free (Bareiss) elimination and, as an      *)
(*     independent definition, by Laplace expansion; the adjugate and      *)
(*     A * Adj(A) = Det(A) * I;                                            *)
(*   - rationals as normalised pairs <<num, den>> for Cramer solutions;    *)
(*   - recorded floating-point results enter only as scaled integers       *)
(*     round(x * 2^q) and are compared inside explicit tolerances that     *)
(*     account for the quantisation (see the property layer at the end).   *)
(*                                                                         *)
(* Part 1  arithmetic, rationals                                           *)
(* Part 2  matrices: product, matrix-vector, identity, flat layouts        *)
(* Part 3  Det, Adj, Singular, Solves, Cramer                              *)
(* Part 4  elimination without row exchange (the mechanism of gj_solve)    *)
(* Part 5  symmetric 3x3: characteristic polynomial, discriminant, class   *)
(* Part 6  property layer: verdicts over one recorded case of the real code*)
(***************************************************************************)
EXTENDS Integers, Sequences, FiniteSets

(***************************************************************************)
(* Part 1: arithmetic                                                      *)
(***************************************************************************)
Abs(x) == IF x < 0 THEN -x ELSE x

RECURSIVE Sum(_, _)
Sum(f, n) == IF n = 0 THEN 0 ELSE f[n] + Sum(f, n - 1)      \* f[1] + .. + f[n]

Pow2(k) == IF k <= 0 THEN 1 ELSE 2 ^ k                      \* k in 0..30

RECURSIVE Gcd(_, _)
Gcd(a, b) == IF b = 0 THEN a ELSE Gcd(b, a % b)             \* a, b >= 0

\* a * 2^sh < b  for 0 <= a, b < 2^29 and any integer sh, without overflow
LtPow2(a, sh, b) ==
    IF sh >= 0
    THEN IF sh > 29 THEN a = 0 /\ b > 0
         ELSE a < ((b + Pow2(sh) - 1) \div Pow2(sh))
    ELSE IF -sh > 29 THEN b > 0
         ELSE (a \div Pow2(-sh)) < b

\* Rationals <<p, q>>, q > 0, gcd(|p|, q) = 1
Rat(p, q) == LET s == IF q < 0 THEN -1 ELSE 1
                 g == Gcd(Abs(p), Abs(q))
             IN <<(s * p) \div g, (s * q) \div g>>
RInt(k) == <<k, 1>>
RAdd(a, b) == Rat(a[1] * b[2] + b[1] * a[2], a[2] * b[2])
RSub(a, b) == Rat(a[1] * b[2] - b[1] * a[2], a[2] * b[2])
RMul(a, b) == Rat(a[1] * b[1], a[2] * b[2])
RDiv(a, b) == Rat(a[1] * b[2], a[2] * b[1])                  \* b # 0
REq(a, b) == a[1] * b[2] = b[1] * a[2]
RLe(a, b) == a[1] * b[2] <= b[1] * a[2]
RECURSIVE RSum(_, _)
RSum(f, n) == IF n = 0 THEN RInt(0) ELSE RAdd(f[n], RSum(f, n - 1))

(***************************************************************************)
(* Part 2: matrices                                                        *)
(***************************************************************************)
Rows(A) == Len(A)
Cols(A) == IF Len(A) = 0 THEN 0 ELSE Len(A[1])
IsMat(A, r, c, S) ==
    /\ Len(A) = r
    /\ \A i \in 1..r : Len(A[i]) = c /\ \A j \in 1..c : A[i][j] \in S
Identity(n) == [i \in 1..n |-> [j \in 1..n |-> IF i = j THEN 1 ELSE 0]]
Zero(n, m) == [i \in 1..n |-> [j \in 1..m |-> 0]]
Transpose(A) == [j \in 1..Cols(A) |-> [i \in 1..Rows(A) |-> A[i][j]]]
Col(A, j) == [i \in 1..Rows(A) |-> A[i][j]]
Dot(x, y) == Sum([k \in 1..Len(x) |-> x[k] * y[k]], Len(x))
MatMul(A, B) == [i \in 1..Rows(A) |-> [k \in 1..Cols(B) |->
                    Sum([j \in 1..Cols(A) |-> A[i][j] * B[j][k]], Cols(A))]]
MatVec(A, x) == [i \in 1..Rows(A) |-> Dot(A[i], x)]
Scale(k, A) == [i \in 1..Rows(A) |-> [j \in 1..Cols(A) |-> k * A[i][j]]]
Diag(d) == [i \in 1..Len(d) |-> [j \in 1..Len(d) |->
                IF i = j THEN d[i] ELSE 0]]
RowAbs(A, i) == Sum([j \in 1..Cols(A) |-> Abs(A[i][j])], Cols(A))
IsDiagonal(A) == \A i, j \in 1..Rows(A) : i # j => A[i][j] = 0
IsSymmetric(A) == \A i, j \in 1..Rows(A) : A[i][j] = A[j][i]
IsScalarMat(A) == IsDiagonal(A) /\ \A i \in 1..Rows(A) : A[i][i] = A[1][1]
SwapRows(A, r, s) == [i \in 1..Rows(A) |->
                        IF i = r THEN A[s] ELSE IF i = s THEN A[r] ELSE A[i]]

\* Row-major flat layout used by pysph/sph/wc/linalg.py (0-based there)
Flat(A) == LET c == Cols(A)
           IN [k \in 1..(Rows(A) * c) |->
                  A[((k - 1) \div c) + 1][((k - 1) % c) + 1]]
Unflat(f, r, c) == [i \in 1..r |-> [j \in 1..c |-> f[c * (i - 1) + j]]]

\* the documented results of the helpers, over flat arrays
FlatIdentity(n) == Flat(Identity(n))
FlatMatMul(a, b, n) == Flat(MatMul(Unflat(a, n, n), Unflat(b, n, n)))
FlatMatVec(a, x, n) == MatVec(Unflat(a, n, n), [k \in 1..n |-> x[k]])
FlatDot(a, b, n) == Sum([k \in 1..n |-> a[k] * b[k]], n)
\* augmented_matrix(A, b, n, na, nmax, result): "the (n + na)*n first
\* entries" of result: row i = n entries of row i of the nmax-wide A followed
\* by the na entries of row i of b
Augmented(A, B) == [i \in 1..Rows(A) |-> A[i] \o B[i]]
FlatAugmented(A, b, n, na, nmax) ==
    [k \in 1..((n + na) * n) |->
        LET i == (k - 1) \div (n + na)
            j == (k - 1) % (n + na)
        IN IF j < n THEN A[nmax * i + j + 1] ELSE b[na * i + (j - n) + 1]]

(***************************************************************************)
(* Part 3: determinant, adjugate, solutions                                *)
(***************************************************************************)
Minor(A, r, c) ==
    [i \in 1..(Rows(A) - 1) |-> [j \in 1..(Rows(A) - 1) |->
        A[IF i < r THEN i ELSE i + 1][IF j < c THEN j ELSE j + 1]]]

\* Laplace expansion along the first row (the definition)
RECURSIVE DetL(_)
DetL(A) ==
    LET n == Rows(A)
    IN IF n = 0 THEN 1
       ELSE IF n = 1 THEN A[1][1]
       ELSE Sum([j \in 1..n |->
                   IF A[1][j] = 0 THEN 0
                   ELSE (IF j % 2 = 1 THEN 1 ELSE -1) * A[1][j]
                        * DetL(Minor(A, 1, j))], n)

\* Bareiss fraction-free elimination with row exchange: every intermediate
\* entry is a minor of A, all divisions are exact
RECURSIVE Bareiss(_, _, _, _)
Bareiss(M, k, prev, sgn) ==
    LET n == Rows(M)
    IN IF k >= n THEN sgn * M[n][n]
       ELSE LET nz == {r \in k..n : M[r][k] # 0}
            IN IF nz = {} THEN 0
               ELSE LET r == CHOOSE x \in nz : \A y \in nz : x <= y
                        P == IF r = k THEN M ELSE SwapRows(M, r, k)
                        N == [i \in 1..n |-> [j \in 1..n |->
                                IF i > k /\ j > k
                                THEN (P[k][k] * P[i][j] - P[i][k] * P[k][j])
                                         \div prev
                                ELSE P[i][j]]]
                    IN Bareiss(N, k + 1, P[k][k],
                               IF r = k THEN sgn ELSE -sgn)
DetB(A) == IF Rows(A) = 0 THEN 1 ELSE Bareiss(A, 1, 1, 1)

Det(A) == DetB(A)
Singular(A) == Det(A) = 0

Adj(A) == LET n == Rows(A)
          IN [i \in 1..n |-> [j \in 1..n |->
                (IF (i + j) % 2 = 0 THEN 1 ELSE -1) * DetL(Minor(A, j, i))]]

\* x (integers) solves A x = b;  X solves A X = B column by column
SolvesInt(A, x, b) == MatVec(A, x) = b
SolvesMat(A, X, B) == MatMul(A, X) = B
\* xs / d solves A x = b (scaled integers)
SolvesScaled(A, xs, d, b) == d # 0 /\ MatVec(A, xs) = [i \in 1..Len(b) |-> d * b[i]]
\* x (rationals) solves A x = b
Solves(A, x, b) ==
    \A i \in 1..Rows(A) :
        REq(RSum([j \in 1..Cols(A) |-> RMul(RInt(A[i][j]), x[j])], Cols(A)),
            RInt(b[i]))
\* Cramer's rule: the unique solution of a non-singular system
CramerNum(A, b) == MatVec(Adj(A), b)
Cramer(A, b) == LET d == Det(A) u == CramerNum(A, b)
                IN [i \in 1..Rows(A) |-> Rat(u[i], d)]

(***************************************************************************)
(* Part 4: elimination without row exchange.                               *)
(* gj_solve's "pivot search" exchanges an element with itself, so what it  *)
(* executes is plain Gaussian elimination on the rows as given.  The       *)
(* fraction-free form below follows that elimination exactly: before step  *)
(* k every entry of the remaining block is the real entry multiplied by    *)
(* one common non-zero factor (the previous pivot minor), so               *)
(*   - step k meets a zero pivot  iff  M[k][k] = 0  (the leading principal *)
(*     minor of order k vanishes),                                         *)
(*   - the real pivot of step k is M[k][k] / prev.                         *)
(* NaiveSteps returns, for k = 1 .. n-1 (stopping after the first zero     *)
(* pivot), [piv, prev]: M[k][k] and the previous pivot.  gj_solve tests    *)
(* the pivot only while rows remain below it, hence n-1 steps.             *)
(***************************************************************************)
RECURSIVE NaiveStepsR(_, _, _)
NaiveStepsR(M, k, prev) ==
    LET n == Rows(M)
    IN IF k >= n THEN <<>>
       ELSE LET rec == [piv |-> M[k][k], prev |-> prev]
            IN IF M[k][k] = 0 THEN <<rec>>
               ELSE LET N == [i \in 1..n |-> [j \in 1..n |->
                                IF i > k /\ j > k
                                THEN (M[k][k] * M[i][j] - M[i][k] * M[k][j])
                                         \div prev
                                ELSE M[i][j]]]
                    IN <<rec>> \o NaiveStepsR(N, k + 1, M[k][k])
NaiveSteps(A) == NaiveStepsR(A, 1, 1)

LeadMinor(A, k) == DetL([i \in 1..k |-> [j \in 1..k |-> A[i][j]]])

ZeroPivot(A) == \E k \in 1..Len(NaiveSteps(A)) : NaiveSteps(A)[k].piv = 0
\* C13-no-pivoting (repaired in /repo by 'fix: gj_solve never exchanged
\* rows'; kept as documentation and as a coverage class): non-singular, yet
\* elimination in the given row order meets a zero pivot.  Such a system
\* must now be solved like any other.
NeedsRowExchange(A) == Det(A) # 0 /\ ZeroPivot(A)

(***************************************************************************)
(* Elimination with partial pivoting - what gj_solve does since the fix:   *)
(* at step k the row (k or below) with the largest |entry| in column k is  *)
(* exchanged into the pivot position, the first one on ties.  re[i] is the *)
(* power-of-two scaling of real row i (real row i = 2^re[i] * A[i]); a     *)
(* column scaling is common to the candidates and does not affect the      *)
(* choice.  Fraction-free as above, so the real pivot of step k is         *)
(* piv/prev * 2^(e + ce[k]) with e the scaling of the chosen row.          *)
(* PivotedElim returns [steps, last, sgn]: one record [piv, prev, e] per   *)
(* step k = 1 .. n-1 (stopping at a column that is zero on and below the   *)
(* diagonal), the last diagonal entry and the sign of the permutation.     *)
(***************************************************************************)
\* a * 2^ea < b * 2^eb for 0 <= a, b < 2^29
LtScaled(a, ea, b, eb) == LtPow2(a, ea - eb, b)
RECURSIVE PivotedR(_, _, _, _, _)
PivotedR(M, re, k, prev, sgn) ==
    LET n == Rows(M)
    IN IF k >= n THEN [steps |-> <<>>, last |-> M[n][n], sgn |-> sgn]
       ELSE LET \* first row whose scaled |entry| no later row exceeds ...
                best == {r \in k..n :
                           \A q \in k..n :
                               ~LtScaled(Abs(M[r][k]), re[r],
                                         Abs(M[q][k]), re[q])}
                p == CHOOSE r \in best : \A q \in best : r <= q
                P == IF p = k THEN M ELSE SwapRows(M, p, k)
                pe == [i \in 1..n |-> IF i = k THEN re[p]
                                      ELSE IF i = p THEN re[k] ELSE re[i]]
                rec == [piv |-> P[k][k], prev |-> prev, e |-> pe[k]]
            IN IF P[k][k] = 0
               THEN [steps |-> <<rec>>, last |-> 0, sgn |-> sgn]
               ELSE LET N == [i \in 1..n |-> [j \in 1..n |->
                                IF i > k /\ j > k
                                THEN (P[k][k] * P[i][j] - P[i][k] * P[k][j])
                                         \div prev
                                ELSE P[i][j]]]
                        rest == PivotedR(N, pe, k + 1, P[k][k],
                                         IF p = k THEN sgn ELSE -sgn)
                    IN [rest EXCEPT !.steps = <<rec>> \o rest.steps]
PivotedElim(A, re) == PivotedR(A, re, 1, 1, 1)

\* Known_C13-abs-pivot-tol: some pivot tested by gj_solve (the pivots of
\* steps 1 .. n-1 of the pivoted elimination) is smaller than 2^-39 (> 1e-12,
\* the absolute threshold in the code) in the real, scaled matrix; or,
\* whatever the order of elimination, every entry of the real matrix is
\* that small
TinyAbsPivot(A, re, ce) ==
    LET st == PivotedElim(A, re).steps
    IN \/ \E k \in 1..Len(st) :
            /\ st[k].piv # 0
            /\ LtPow2(Abs(st[k].piv), st[k].e + ce[k] + 39, Abs(st[k].prev))
       \/ /\ Rows(A) >= 2
          /\ \A i, j \in 1..Rows(A) :
                LtPow2(Abs(A[i][j]), re[i] + ce[j] + 39, 1)

(***************************************************************************)
(* Part 5: symmetric 3x3 integer matrices                                  *)
(* characteristic polynomial  l^3 - c2 l^2 + c1 l - c0                     *)
(***************************************************************************)
Trace(A) == Sum([i \in 1..Rows(A) |-> A[i][i]], Rows(A))
CharPoly(A) ==
    [c2 |-> Trace(A),
     c1 |-> A[1][1] * A[2][2] - A[1][2] * A[2][1]
            + A[1][1] * A[3][3] - A[1][3] * A[3][1]
            + A[2][2] * A[3][3] - A[2][3] * A[3][2],
     c0 |-> DetL(A)]
\* discriminant of the cubic: > 0 three distinct real roots, = 0 repeated
Disc(A) ==
    LET p == CharPoly(A)
    IN p.c2 * p.c2 * p.c1 * p.c1 - 4 * p.c1 * p.c1 * p.c1
       - 4 * p.c2 * p.c2 * p.c2 * p.c0 + 18 * p.c2 * p.c1 * p.c0
       - 27 * p.c0 * p.c0
EigClass(A) ==
    LET p == CharPoly(A)
    IN IF Disc(A) # 0 THEN "distinct"
       ELSE IF p.c2 * p.c2 = 3 * p.c1 THEN "triple" ELSE "double"
\* number of zero eigenvalues (= 3 - rank for a symmetric matrix)
ZeroEigs(A) ==
    LET p == CharPoly(A)
    IN IF p.c0 # 0 THEN 0 ELSE IF p.c1 # 0 THEN 1
       ELSE IF p.c2 # 0 THEN 2 ELSE 3

(***************************************************************************)
(* Part 6: property layer - verdicts over one recorded case.               *)
(* Nothing here knows how the code works; a case record holds the inputs   *)
(* the driver chose and the values returned by the real functions.         *)
(***************************************************************************)

(* --- gj_solve ----------------------------------------------------------
   c.A : n x n integers, c.B : n x nb integers, c.re / c.ce : exponents of
   the exact power-of-two row / column scalings the driver applied to the
   real input (real A' = 2^re[i] A[i][j] 2^ce[j], B' = 2^re[i] B[i][j]; the
   real solution is X'[j] = 2^-ce[j] X[j], and the driver multiplies the
   column scaling back exactly before quantising).
   c.ret : 0 iff gj_solve returned 0.0;  c.X[i][j] = round(x * 2^c.q);
   c.XF[i][j] = round((x * 2^q - X) * 2^20), the next 20 bits;
   c.ok : every returned entry finite and |x * 2^q| < c.lim.
   c.mode = "resid": TLC checks the residual |A X - 2^q B|;
   c.mode = "exact": c.X0 / c.den is the solution, A X0 = den B (checked;
          den = 1: integer solution, den = 3: thirds, which no floating-
          point division returns exactly), and TLC compares den X with
          2^q X0.
   Quantisation: |X - 2^q x| <= 1/2 per entry, hence
   |A X - 2^q B|_i <= RowAbs(A, i) / 2 for the exactly rounded true solution;
   GjSlack (units of 2^-q) is what floating-point rounding may add.        *)
GjSlack == 2
GjResidOK(c) ==
    \A i \in 1..c.n : \A j \in 1..c.nb :
        2 * Abs(Dot(c.A[i], Col(c.X, j)) - Pow2(c.q) * c.B[i][j])
            <= RowAbs(c.A, i) + 2 * GjSlack
GjExactOK(c) ==
    \A i \in 1..c.n : \A j \in 1..c.nb :
        Abs(c.den * c.X[i][j] - Pow2(c.q) * c.X0[i][j])
            <= c.den * (1 + GjSlack)
GjSolutionOK(c) ==
    c.ok /\ IF c.mode = "exact" THEN GjExactOK(c) ELSE GjResidOK(c)

(* Accuracy "bounded by the conditioning of the matrix" (exact mode, q = 20).
   The driver records a second limb c.XF: x * 2^40 ~ X * 2^20 + XF, so the
   error of the returned solution is known at a resolution of 2^-40.  The
   bound is  |x - x0| <= K n^2 |R|max |R^-1|max u |x0|max  with
     R = the real matrix 2^re[i] A[i][j] 2^ce[j],  u = 2^-53,
     R^-1[i][j] = Adj(A)[i][j] 2^(-ce[i] - re[j]) / Det(A)   (exactly),
     n^2 |R|max |R^-1|max >= cond_inf(R);  K = 16 allows for element growth
   and the constants of backward error analysis.  Magnitudes are kept as
   <<mantissa, exponent>> pairs, the mantissa rounded up to 8 bits, so that
   everything fits in 32 bits.  In units of 2^-40 the tolerance is
   2 (quantisation) + GjCondTol; when that exceeds 2^18 only the coarse
   comparison above applies.                                               *)
RECURSIVE MaxScaled(_, _)       \* largest m * 2^e among f[1..k], f[i] = <<m, e>>
MaxScaled(f, k) ==
    IF k = 1 THEN f[1]
    ELSE LET m == MaxScaled(f, k - 1)
         IN IF LtScaled(m[1], m[2], f[k][1], f[k][2]) THEN f[k] ELSE m
\* adjugate with the minors computed by fraction-free elimination
AdjB(A) == LET n == Rows(A)
           IN [i \in 1..n |-> [j \in 1..n |->
                 (IF (i + j) % 2 = 0 THEN 1 ELSE -1) * DetB(Minor(A, j, i))]]
RECURSIVE Norm8(_)
Norm8(p) == IF p[1] < 256 THEN p ELSE Norm8(<<(p[1] + 1) \div 2, p[2] + 1>>)
RECURSIVE NormDown8(_)
NormDown8(p) == IF p[1] < 256 THEN p ELSE NormDown8(<<p[1] \div 2, p[2] + 1>>)
GjCondTol(c) ==
    LET n == c.n
        \* small entries: minors by elimination (fast); a row of large
        \* entries: by Laplace expansion (linear in the large entries)
        ad == IF \A i, j \in 1..n : Abs(c.A[i][j]) < 1024
              THEN AdjB(c.A) ELSE Adj(c.A)
        I == 1..n
        R(k) == ((k - 1) \div n) + 1
        C(k) == ((k - 1) % n) + 1
        a == Norm8(MaxScaled(
                [k \in 1..(n * n) |-> <<Abs(c.A[R(k)][C(k)]),
                                        c.re[R(k)] + c.ce[C(k)]>>], n * n))
        b == Norm8(MaxScaled(
                [k \in 1..(n * n) |-> <<Abs(ad[R(k)][C(k)]),
                                        -(c.ce[R(k)] + c.re[C(k)])>>], n * n))
        xs == {Abs(c.X0[i][j]) : i \in I, j \in 1..c.nb} \cup {1}
        xm == CHOOSE x \in xs : \A y \in xs : y <= x
        \* |Det| = dm * 2^de, dm rounded down to 8 bits (the bound grows)
        dn == NormDown8(<<Abs(Det(c.A)), 0>>)
        num == 16 * n * n * xm * a[1] * b[1]
        e == a[2] + b[2] - dn[2] - 13
        d == dn[1]
    IN IF xm > 8 \/ e > 2 THEN 262144
       ELSE IF e >= 0 THEN ((num * Pow2(e)) \div d) + 1
       ELSE IF -e > 29 THEN 1
       ELSE ((num \div Pow2(-e)) \div d) + 1
GjFineDev(c, i, j) ==
    Abs((c.den * c.X[i][j] - Pow2(20) * c.X0[i][j]) * Pow2(20)
        + c.den * c.XF[i][j])
GjFineOK(c) ==
    (c.mode = "exact" /\ c.q = 20) =>
        \* the conditioning is worked out only when the error exceeds the
        \* smallest possible tolerance (2 + 1 units)
        \/ \A i \in 1..c.n : \A j \in 1..c.nb :
               GjFineDev(c, i, j) <= c.den * 3
        \/ LET t == GjCondTol(c)
           IN t < 262144 =>
                \A i \in 1..c.n : \A j \in 1..c.nb :
                    GjFineDev(c, i, j) <= c.den * (2 + t)
GjWellFormed(c) ==
    /\ IsMat(c.A, c.n, c.n, Int) /\ IsMat(c.B, c.n, c.nb, Int)
    /\ IsMat(c.X, c.n, c.nb, Int)
    /\ IsMat(c.XF, c.n, c.nb, -524288..524288)
    /\ Len(c.re) = c.n /\ Len(c.ce) = c.n
    /\ c.den \in 1..3
    /\ c.mode = "exact" => SolvesMat(c.A, c.X0, Scale(c.den, c.B))

\* [failed, known, cls] of a gj case; the determinant and the pivoted
\* elimination are evaluated once
GjVerdict(c) ==
    LET ns == Det(c.A) # 0
        tiny == ns /\ TinyAbsPivot(c.A, c.re, c.ce)
        sol == GjSolutionOK(c)
        failed ==
            (IF GjWellFormed(c) THEN {} ELSE {"bad_case"})
            \* "returns 0 for every non-singular system" = "non-zero only
            \* for singular input"
            \cup (IF ns /\ c.ret # 0 THEN {"nonsingular_returns_zero"}
                  ELSE {})
            \cup (IF ns /\ c.ret = 0 /\ ~sol THEN {"nonsingular_solution"}
                  ELSE {})
            \cup (IF ns /\ c.ret = 0 /\ sol /\ ~GjFineOK(c)
                  THEN {"nonsingular_accuracy"} ELSE {})
    IN [failed |-> failed,
        known |-> IF tiny THEN {"C13-abs-pivot-tol"} ELSE {},
        cls |-> IF ~ns THEN "singular"
                ELSE IF tiny THEN "tiny_abs_pivot"
                ELSE IF ZeroPivot(c.A) THEN "needs_row_exchange"
                ELSE "regular"]
GjFailed(c) == GjVerdict(c).failed
GjKnown(c) == GjVerdict(c).known
GjClass(c) == GjVerdict(c).cls

(* --- products, identity, layout: exact ---------------------------------
   c.op in {"mm", "mv", "id", "aug", "dot"}; c.a, c.b flat integer inputs,
   c.r the flat integer result (the first c.len entries), c.ok: all entries
   were integers.                                                          *)
HelperExpected(c) ==
    CASE c.op = "mm"  -> FlatMatMul(c.a, c.b, c.n)
      [] c.op = "mv"  -> FlatMatVec(c.a, c.b, c.n)
      [] c.op = "id"  -> FlatIdentity(c.n)
      [] c.op = "aug" -> FlatAugmented(c.a, c.b, c.n, c.na, c.nmax)
      [] c.op = "dot" -> <<FlatDot(c.a, c.b, c.n)>>
HelperFailed(c) ==
    IF c.ok /\ c.r = HelperExpected(c) THEN {} ELSE {c.op}

(* --- 3x3 symmetric eigen helpers ----------------------------------------
   c.A symmetric integers, the real input is 2^c.s * A.  Returned values d
   (divided by 2^s, exact) and vectors V (V[j][i] = component j of vector i)
   are recorded in two limbs of 13 bits: x * 2^26 ~ h * 2^13 + l, |l| <=
   2^12, so that every product below fits in 32 bits while the comparison
   is made at a resolution of 2^-26.
   c.dh, c.dl : limbs of d;  c.vh, c.vl : limbs of V (3 x 3).
   tol: allowed error in units of 2^-26 (on top of the quantisation).      *)
B13 == 8192
EigWellFormed(c) == IsMat(c.A, 3, 3, -2..2) /\ IsSymmetric(c.A)
\* |eigenvalue| <= max row sum <= 6; |component of a unit vector| <= 1
EigLimbsOK(c) ==
    /\ \A i \in 1..3 : Abs(c.dl[i]) <= 4096 /\ Abs(c.dh[i]) <= 6 * B13 + 64
    /\ c.fn # "values" =>
          \A i, j \in 1..3 :
              Abs(c.vl[j][i]) <= 4096 /\ Abs(c.vh[j][i]) <= B13 + 64

\* sum of the eigenvalues = trace, at 2^-26
EigTraceOK(c, tol) ==
    LET hi == Sum(c.dh, 3) - Trace(c.A) * B13
    IN Abs(hi) <= 64 /\ Abs(hi * B13 + Sum(c.dl, 3)) <= 2 + 3 * tol
\* coarser: sum of pairwise products = c1 at 2^-11, product = c0 at 2^-7
\* (g = floor of a rounded value: |g - d * 2^k| <= 1)
EigC1OK(c, tol) ==
    LET g == [i \in 1..3 |-> c.dh[i] \div 4]
        s == g[1] * g[2] + g[1] * g[3] + g[2] * g[3]
    IN Abs(s - CharPoly(c.A).c1 * 2048 * 2048)
          <= 2 * (Abs(g[1]) + Abs(g[2]) + Abs(g[3])) + 3 + tol
EigC0OK(c, tol) ==
    LET g == [i \in 1..3 |-> c.dh[i] \div 64]
        m == Abs(g[1] * g[2]) + Abs(g[1] * g[3]) + Abs(g[2] * g[3])
    IN Abs(g[1] * g[2] * g[3] - CharPoly(c.A).c0 * 128 * 128 * 128)
          <= m + Abs(g[1]) + Abs(g[2]) + Abs(g[3]) + 1 + 2 * tol
\* v_i . v_j = delta_ij, at 2^-26.  With x * 2^26 = h B + l (B = 2^13):
\*   2^52 (v_i . v_j - delta) = B^2 p2 + B p1 + p0
\* quantisation alone contributes at most 1.74 B^3
EigOrthoOK(c, tol) ==
    \A i, j \in 1..3 :
      i <= j =>
        LET p2 == Sum([k \in 1..3 |-> c.vh[k][i] * c.vh[k][j]], 3)
                  - (IF i = j THEN B13 * B13 ELSE 0)
            p1 == Sum([k \in 1..3 |-> c.vh[k][i] * c.vl[k][j]
                                      + c.vl[k][i] * c.vh[k][j]], 3)
            p0 == Sum([k \in 1..3 |-> c.vl[k][i] * c.vl[k][j]], 3)
        IN /\ Abs(p2) <= 32768
           /\ Abs(p2 * B13 + p1 + (p0 \div B13)) <= (4 + 4 * tol) * B13
\* A v_i = d_i v_i, at 2^-26:
\*   2^52 ((A v_i)_j - d_i v_ji) = B^2 x2 + B x1 - dl vl
\* quantisation alone contributes at most 6.5 B^3
EigPairOK(c, tol) ==
    \A i, j \in 1..3 :
        LET ah == Sum([k \in 1..3 |-> c.A[j][k] * c.vh[k][i]], 3)
            al == Sum([k \in 1..3 |-> c.A[j][k] * c.vl[k][i]], 3)
            x2 == ah * B13 - c.dh[i] * c.vh[j][i]
            x1 == al * B13 - (c.dh[i] * c.vl[j][i] + c.dl[i] * c.vh[j][i])
            x0 == -((c.dl[i] * c.vl[j][i]) \div B13)
        IN /\ Abs(x2) <= 131072
           /\ Abs(x2 * B13 + x1 + x0) <= (8 + 16 * tol) * B13
\* repeated roots are returned as (nearly) equal values, distinct ones not
EigNear(c, i, j, tol) ==
    Abs((c.dh[i] - c.dh[j]) * B13 + c.dl[i] - c.dl[j]) <= 2 + 2 * tol
EigMultOK(c, tol) ==
    LET cl == EigClass(c.A)
    IN CASE cl = "triple" -> EigNear(c, 1, 2, tol) /\ EigNear(c, 2, 3, tol)
         [] cl = "double" -> \E i, j \in 1..3 : i < j /\ EigNear(c, i, j, tol)
         [] OTHER -> \A i, j \in 1..3 : i < j => ~EigNear(c, i, j, tol)

\* tolerance in units of 2^-26: rounding level for the EISPACK routine; the
\* closed-form (acos / atan2 based) helpers are allowed sqrt(eps)-level error
EigTol(c) == IF c.fn = "eispack" THEN 2 ELSE 1024

EigFailed(c) ==
    LET t == EigTol(c)
    IN IF ~EigWellFormed(c) THEN {"bad_case"}
       ELSE IF ~c.ok THEN {"finite"}
       ELSE IF ~EigLimbsOK(c) THEN {"range"}
       ELSE (IF EigTraceOK(c, t) THEN {} ELSE {"trace"})
            \cup (IF EigC1OK(c, t) THEN {} ELSE {"pair_products"})
            \cup (IF EigC0OK(c, t) THEN {} ELSE {"det_product"})
            \cup (IF EigMultOK(c, t) THEN {} ELSE {"multiplicity"})
            \cup (IF c.fn = "values" THEN {}
                  ELSE (IF EigOrthoOK(c, t) THEN {} ELSE {"orthonormal"})
                       \cup (IF EigPairOK(c, t) THEN {} ELSE {"eigenpair"}))

\* coverage class: multiplicity class, number of zero eigenvalues, shape
EigCoverClass(c) ==
    <<EigClass(c.A), ZeroEigs(c.A),
      IF IsDiagonal(c.A) THEN "diagonal" ELSE "full">>

\* Known_C13-closed-form-eig: the closed-form helpers (py_get_eigenvalues,
\* py_get_eigenvalvec; not the routine the shipped equations call) compare
\* p^3 - q^2 with the absolute constant EPS, and derive the vectors of a
\* repeated eigenvalue from the same cross product twice
EigKnown(c) ==
    IF /\ c.fn \in {"values", "valvec"}
       /\ ~(c.fn = "valvec" /\ IsDiagonal(c.A))
       /\ (c.s < 0 \/ Disc(c.A) = 0)
    THEN {"C13-closed-form-eig"} ELSE {}

(* --- exact 3x3 transforms and determinant of linalg3 --------------------
   c.op: "tdi" P diag(d) P^T, "td" P^T diag(d) P, "tr" P^T A P, "det3".    *)
XformExpected(c) ==
    CASE c.op = "tdi" -> MatMul(MatMul(c.P, Diag(c.d)), Transpose(c.P))
      [] c.op = "td"  -> MatMul(MatMul(Transpose(c.P), Diag(c.d)), c.P)
      [] c.op = "tr"  -> MatMul(MatMul(Transpose(c.P), c.A), c.P)
      [] c.op = "det3" -> <<<<Det(c.A)>>>>
XformFailed(c) == IF c.ok /\ c.r = XformExpected(c) THEN {} ELSE {c.op}
=============================================================================
