------------------------------ MODULE ParLoop ------------------------------
(***************************************************************************)
(* One parallel region of the generated acceleration evaluator (C05):      *)
(* `for d_idx in prange(D_START_IDX, NP_DEST)` executed by T threads with  *)
(* dynamic chunks.  Each iteration fills the calling thread's own          *)
(* neighbour scratch array, reads source rows and accumulates into row     *)
(* d_idx of the destination.  The configuration (number of threads, chunk  *)
(* size, which thread gets which chunk) must be irrelevant to the result:  *)
(* that holds because no location is written by two threads or read by one *)
(* while written by another, which is what TLC checks here for every       *)
(* schedule of a small instance.                                           *)
(***************************************************************************)
EXTENDS Integers, FiniteSets, Sequences, TLC

CONSTANTS N,        \* destination rows 1..N
          T,        \* threads 1..T
          Chunk,    \* chunk size of the dynamic schedule
          WProps,   \* properties the equations write (of row d_idx)
          RProps    \* properties they read of source rows

VARIABLES next,     \* first row not yet handed out
          lo, hi,   \* chunk of each thread (lo > hi: none)
          cur,      \* row a thread is working on (0: none)
          pc,       \* "idle", "fill", "loop", "done"
          scratch,  \* scratch[t]: row whose neighbours are in thread t's array
          writer,   \* writer[<<p, i>>]: set of threads that wrote location (p, i)
          acc       \* acc[i]: set of source rows accumulated into row i

vars == <<next, lo, hi, cur, pc, scratch, writer, acc>>
Threads == 1..T
Rows == 1..N
Nbrs(i) == {j \in Rows : j - i \in {-1, 0, 1}}

Init == /\ next = 1 /\ lo = [t \in Threads |-> 1] /\ hi = [t \in Threads |-> 0]
        /\ cur = [t \in Threads |-> 0] /\ pc = [t \in Threads |-> "idle"]
        /\ scratch = [t \in Threads |-> 0]
        /\ writer = [l \in WProps \X Rows |-> {}]
        /\ acc = [i \in Rows |-> {}]

Grab(t) == /\ pc[t] = "idle" /\ lo[t] > hi[t] /\ next <= N
           /\ lo' = [lo EXCEPT ![t] = next]
           /\ hi' = [hi EXCEPT ![t] = IF next + Chunk - 1 > N THEN N ELSE next + Chunk - 1]
           /\ next' = next + Chunk
           /\ UNCHANGED <<cur, pc, scratch, writer, acc>>
Start(t) == /\ pc[t] = "idle" /\ lo[t] <= hi[t]
            /\ cur' = [cur EXCEPT ![t] = lo[t]] /\ lo' = [lo EXCEPT ![t] = lo[t] + 1]
            /\ pc' = [pc EXCEPT ![t] = "fill"]
            /\ UNCHANGED <<next, hi, scratch, writer, acc>>
\* nnps.get_nearest_neighbors(d_idx, self.nbrs[thread_id])
Fill(t) == /\ pc[t] = "fill" /\ scratch' = [scratch EXCEPT ![t] = cur[t]]
           /\ pc' = [pc EXCEPT ![t] = "loop"]
           /\ UNCHANGED <<next, lo, hi, cur, writer, acc>>
\* loop over the neighbours in this thread's scratch array, accumulate in row cur
Loop(t) == /\ pc[t] = "loop"
           /\ acc' = [acc EXCEPT ![cur[t]] = Nbrs(scratch[t])]
           /\ writer' = [l \in WProps \X Rows |->
                           IF l[2] = cur[t] THEN writer[l] \cup {t} ELSE writer[l]]
           /\ pc' = [pc EXCEPT ![t] = "idle"] /\ cur' = [cur EXCEPT ![t] = 0]
           /\ UNCHANGED <<next, lo, hi, scratch>>
Finish(t) == /\ pc[t] = "idle" /\ lo[t] > hi[t] /\ next > N
             /\ pc' = [pc EXCEPT ![t] = "done"]
             /\ UNCHANGED <<next, lo, hi, cur, scratch, writer, acc>>
Next == \E t \in Threads : Grab(t) \/ Start(t) \/ Fill(t) \/ Loop(t) \/ Finish(t)
Spec == Init /\ [][Next]_vars /\ \A t \in Threads : WF_vars(Grab(t) \/ Start(t) \/ Fill(t) \/ Loop(t) \/ Finish(t))

\* each destination index is processed by exactly one thread ...
OneThreadPerRow == \A t1, t2 \in Threads : (t1 # t2 /\ cur[t1] # 0) => cur[t1] # cur[t2]
\* ... which writes only its own row; no location has two writers
SingleWriter == \A l \in WProps \X Rows : Cardinality(writer[l]) <= 1
\* what is written is never read by another iteration of the same region
NoReadWriteOverlap == WProps \cap RProps = {}
\* the scratch array read in Loop is the one this thread filled for this row
ScratchPrivate == \A t \in Threads : pc[t] = "loop" => scratch[t] = cur[t]
AllDone == \A t \in Threads : pc[t] = "done"
\* the result is a function of the data alone (the configuration - T, Chunk,
\* the schedule - is irrelevant)
ResultIndependent == AllDone => \A i \in Rows : acc[i] = Nbrs(i)
Terminates == <>AllDone
=============================================================================
