-------------------------- MODULE TraceIntegrator --------------------------
(***************************************************************************)
(* Validates runs recorded from the real compiled integrator               *)
(* (checks/c04_driver.py).  A batch file holds one run per line: the case  *)
(* (program, steppers, step calls, initial particle data, images created   *)
(* by each update_domain) plus the recorded event log `log` and the final  *)
(* particle data `fin`.  For every run TLC                                 *)
(*   P: evaluates the clauses of the property layer on the REAL log and    *)
(*      compares the REAL final data with the data obtained by executing   *)
(*      one_timestep literally (the op-list machine run on the case) -     *)
(*      this is the verdict (`failed`);                                    *)
(*   M: compares the real log with the machine's log (drift).              *)
(* Runs whose program has the signature of a known finding are executed a  *)
(* second time with the defect semantics (df): a failure is `explained`    *)
(* only if it is a State failure and the defect semantics reproduces the   *)
(* real data exactly.                                                      *)
(***************************************************************************)
EXTENDS Integrator, Json, IOUtils, TLCExt

Traces == ndJsonDeserialize(IOEnv.TRACE_FILE)
NT == Len(Traces)
VARIABLE tid
T == Traces[tid]

\* C04-stepper-attr-snapshot: a py_stageN hook that is executed writes a
\* stepper attribute which compiled stage methods read
SigAttr(x) ==
    \E ai \in 1..Len(x.arrs) : \E k \in 1..Len(x.ops) :
        /\ x.ops[k].op = "stage"
        /\ x.arrs[ai].meth[x.ops[k].m + 1].py
        /\ x.arrs[ai].meth[x.ops[k].m + 1].pyw

WellFormedTrace(x) ==
    /\ Len(x.init) = Len(x.arrs)
    /\ \A k \in 1..Len(x.ops) :
         /\ x.ops[k].den > 0
         /\ x.ops[k].op = "stage" =>
              \A ai \in 1..Len(x.arrs) : x.ops[k].m + 1 <= Len(x.arrs[ai].meth)
    /\ \A ai \in 1..Len(x.arrs) : x.arrs[ai].nreal <= Len(x.init[ai])
    /\ Len(x.steps) >= 1 /\ Len(x.ops) >= 1

(***************************************************************************)
(* final data: equal where the statement determines it                     *)
(***************************************************************************)
FieldDiff(ai, key, f, m) ==
    (IF f.x # m.x THEN {<<ai, key, "x">>} ELSE {})
    \cup (IF f.v # m.v THEN {<<ai, key, "v">>} ELSE {})
    \cup (IF f.g # m.g THEN {<<ai, key, "g">>} ELSE {})
    \cup (IF ~ m.ts /\ f.s # m.s THEN {<<ai, key, "s">>} ELSE {})
    \cup (IF ~ m.ta /\ f.au # m.au THEN {<<ai, key, "au">>} ELSE {})

\* particle p of the record against particle p of the machine
StateDiff(fin, ps) ==
    IF Len(fin) # Len(ps) THEN {<<0, 0, "arrays">>}
    ELSE UNION {
        IF Len(fin[ai]) # Len(ps[ai]) THEN {<<ai, 0, "count">>}
        ELSE UNION {FieldDiff(ai, p, fin[ai][p], ps[ai][p])
                    : p \in 1..Len(ps[ai])}
        : ai \in 1..Len(ps)}

\* hooks changed the population: pysph does not specify the order inside the
\* real / ghost part of an array; particles are identified by their uid,
\* the real ones must still come first
StateDiffByUid(fin, ps) ==
    IF Len(fin) # Len(ps) THEN {<<0, 0, "arrays">>}
    ELSE UNION {
        IF Len(fin[ai]) # Len(ps[ai]) THEN {<<ai, 0, "count">>}
        ELSE UNION {
               LET m == ps[ai][p]
                   S == {q \in 1..Len(fin[ai]) : fin[ai][q].uid = m.uid}
               IN IF Cardinality(S) # 1 THEN {<<ai, m.uid, "uid">>}
                  ELSE LET q == CHOOSE q \in S : TRUE
                       IN FieldDiff(ai, m.uid, fin[ai][q], m)
                          \cup (IF fin[ai][q].g # (q > NRof(ps[ai]))
                                THEN {<<ai, m.uid, "order">>} ELSE {})
               : p \in 1..Len(ps[ai])}
        : ai \in 1..Len(ps)}

\* shipped steppers (no logging probes): no ghost was touched by the step
GhostTouched(x) ==
    UNION {{<<ai, p>> : p \in {q \in 1..Len(x.touched[ai]) :
                                q > x.arrs[ai].nreal /\ x.touched[ai][q]}}
           : ai \in 1..Len(x.arrs)}

(***************************************************************************)
(* drift: real log vs machine log, up to what is not observable            *)
(***************************************************************************)
EvNear(a, b, e) ==
    /\ a.ev = b.ev /\ a.a = b.a /\ a.m = b.m /\ a.i = b.i /\ a.n = b.n
    /\ Near(a.t, b.t, e) /\ Near(a.dt, b.dt, e)
SeqNear(A, B, e) ==
    /\ Len(A) = Len(B)
    /\ \A k \in 1..Len(A) : EvNear(A[k], B[k], e)
GlobalsN(l) == SelectSeq(l, LAMBDA y : y.ev \in GKinds \cup {"nnps"})
SameLog(x, real, mach) ==
    /\ SeqNear(GlobalsN(real), GlobalsN(mach), x.e)
    /\ x.vis => \A ai \in 1..Len(x.arrs) :
                   SeqNear(AEvents(x, real, ai), AEvents(x, mach, ai), x.e)

Reg(i, d) == IF d THEN NT + i ELSE i

Verdict ==
    LET diff == IF ~ T.vis THEN {}
                ELSE IF HasPop(T) THEN StateDiffByUid(T.fin, parts)
                ELSE StateDiff(T.fin, parts)
        gt   == IF T.vis THEN {} ELSE GhostTouched(T)
        fl   == FailedLog(T, T.log)
    IN [id |-> T.id, done |-> TRUE, wf |-> TRUE, df |-> df,
        failed |-> fl \cup (IF diff = {} THEN {} ELSE {"State"})
                      \cup (IF gt = {} THEN {} ELSE {"GhostTouched"}),
        diff |-> diff \cup gt,
        samelog |-> SameLog(T, T.log, log),
        tainted |-> \E ai \in 1..Len(parts) : \E p \in 1..Len(parts[ai]) :
                        parts[ai][p].ts \/ parts[ai][p].ta]

Blank(x, d) == [id |-> x.id, done |-> FALSE, wf |-> WellFormedTrace(x),
                df |-> d, failed |-> {"Incomplete"}, diff |-> {},
                samelog |-> FALSE, tainted |-> FALSE]

TInit ==
    /\ tid \in 1..NT
    /\ \E d \in (IF SigAttr(T) THEN BOOLEAN ELSE {FALSE}) :
         /\ TLCSet(Reg(tid, d), Blank(T, d))
         /\ WellFormedTrace(T)
         /\ Start(T, d)

TNext == Next /\ UNCHANGED tid

\* CONSTRAINT: record the verdict when the machine has executed every step
Track == IF Done THEN TLCSet(Reg(tid, df), Verdict) ELSE TRUE

Report ==
    \A i \in 1..NT :
        LET r == TLCGet(i)
            sig == SigAttr(Traces[i])
            expl == /\ r.failed = {"State"}
                    /\ sig
                    /\ TLCGet(NT + i).done
                    /\ TLCGet(NT + i).failed = {}
        IN PrintT(<<"VERDICT",
                    ToJson([v |-> r,
                            sig |-> IF sig THEN {"C04-stepper-attr-snapshot"}
                                    ELSE {},
                            explained |-> expl])>>)
=============================================================================
