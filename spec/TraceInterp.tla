---------------------------- MODULE TraceInterp ----------------------------
(***************************************************************************)
(* Validates histories recorded from the real Interpolator / SPHEvaluator  *)
(* (checks/c14_driver.py).  A batch file holds one history per line (see   *)
(* Interp.tla part 6): the abstract state after every action as the driver *)
(* set it, and the values interpolate() / evaluate() returned, converted   *)
(* exactly to fractions.  For every history the property layer of          *)
(* Interp.tla yields the violated clauses, the steps where they fail and   *)
(* the known-finding signatures those steps match.                         *)
(***************************************************************************)
EXTENDS Interp, Json, IOUtils, TLCExt

Traces == ndJsonDeserialize(IOEnv.TRACE_FILE)
VARIABLE tid

TInit == tid \in 1..Len(Traces) /\ TLCSet(tid, Verdict(Traces[tid]))
TNext == FALSE /\ tid' = tid
Report == \A i \in 1..Len(Traces) : PrintT(<<"VERDICT", ToJson(TLCGet(i))>>)
=============================================================================
