-------------------------- MODULE ParticleArrayMC --------------------------
(***************************************************************************)
(* Design check for C06: the two order-changing *mechanisms* of the        *)
(* implementation - swap-with-last removal (cyarray BaseArray.remove as    *)
(* used by remove_particles) and the index-array algorithm of              *)
(* align_particles followed by the gather of c_align_array - are modelled  *)
(* step by step on abstract rows and every transition must satisfy the     *)
(* declarative relation of ParticleArray.tla for that operation            *)
(* (mechanism => property layer), for all histories of a small instance.   *)
(***************************************************************************)
EXTENDS ParticleArray

CONSTANTS MaxN, Tags

VARIABLES rows, nreal, nextid, prev, op

vars == <<rows, nreal, nextid, prev, op>>

MkRow(id, tag) == [tag |-> <<tag>>, id |-> <<id>>]
Mk(rs, nr) ==
    [type |-> [tag |-> "int", id |-> "int"], stride |-> [tag |-> 1, id |-> 1],
     dflt |-> [tag |-> 0, id |-> 0],
     len |-> [tag |-> Len(rs), id |-> Len(rs)],
     data |-> [tag |-> [i \in 1..Len(rs) |-> rs[i]["tag"][1]],
               id  |-> [i \in 1..Len(rs) |-> rs[i]["id"][1]]],
     consts |-> <<>>, outs |-> {}, nreal |-> nr]

\* align_particles: the index array (positions are 1-based here)
AlignIndex(rs) ==
    LET n == Len(rs)
        F[i \in 0..n] ==
          IF i = 0 THEN [ia |-> [k \in 1..n |-> 0], ni |-> 1]
          ELSE LET p == F[i - 1]
               IN IF IsLocal(rs[i])
                  THEN IF i # p.ni
                       THEN [ia |-> [p.ia EXCEPT ![p.ni] = i, ![i] = p.ia[p.ni]],
                             ni |-> p.ni + 1]
                       ELSE [ia |-> [p.ia EXCEPT ![i] = i], ni |-> p.ni + 1]
                  ELSE [ia |-> [p.ia EXCEPT ![i] = i], ni |-> p.ni]
    IN F[n].ia
\* c_align_array: gather through the index array
AlignRows(rs) == LET ia == AlignIndex(rs) IN [i \in 1..Len(rs) |-> rs[ia[i]]]

\* BaseArray.remove(sorted indices): from the largest index down, overwrite
\* with the current last element and shrink
RemoveRows(rs, S) ==
    LET R[T \in SUBSET S] ==
          IF T = {} THEN rs
          ELSE LET i  == CHOOSE x \in T : \A y \in T : x <= y   \* processed last
                   q  == R[T \ {i}]
               IN SubSeq([q EXCEPT ![i] = q[Len(q)]], 1, Len(q) - 1)
    IN R[S]

Init == /\ rows = <<>> /\ nreal = 0 /\ nextid = 1
        /\ prev = Mk(<<>>, 0) /\ op = [name |-> "init"]

Add(tag, align) ==
    /\ Len(rows) < MaxN
    /\ LET r1 == Append(rows, MkRow(nextid, tag))
       IN /\ rows' = IF align THEN AlignRows(r1) ELSE r1
          /\ nreal' = IF align THEN NumLocal(r1) ELSE nreal
    /\ nextid' = nextid + 1
    /\ prev' = Mk(rows, nreal)
    /\ op' = [name |-> "add", tag |-> tag, id |-> nextid, align |-> align]

Remove(S, align) ==
    /\ S # {}
    /\ LET r1 == RemoveRows(rows, S)
       IN /\ rows' = IF align THEN AlignRows(r1) ELSE r1
          /\ nreal' = IF align THEN NumLocal(r1) ELSE nreal
    /\ prev' = Mk(rows, nreal)
    /\ op' = [name |-> "remove", idx |-> S, align |-> align]
    /\ UNCHANGED nextid

SetTagAt(i, tag) ==
    /\ rows' = [rows EXCEPT ![i] = MkRow(rows[i]["id"][1], tag)]
    /\ prev' = Mk(rows, nreal)
    /\ op' = [name |-> "set_tag", idx |-> {i}, tag |-> tag]
    /\ UNCHANGED <<nreal, nextid>>

DoAlign ==
    /\ rows' = AlignRows(rows) /\ nreal' = NumLocal(rows)
    /\ prev' = Mk(rows, nreal)
    /\ op' = [name |-> "align"]
    /\ UNCHANGED nextid

Next ==
    \/ \E tag \in Tags, al \in BOOLEAN : Add(tag, al)
    \/ \E S \in SUBSET (1..Len(rows)), al \in BOOLEAN : Remove(S, al)
    \/ \E i \in 1..Len(rows), tag \in Tags : SetTagAt(i, tag)
    \/ DoAlign

Spec == Init /\ [][Next]_vars

\* Every step of the mechanism satisfies the declarative relation.
StepOK ==
    LET cur == Mk(rows, nreal)
    IN CASE op.name = "init"   -> TRUE
         [] op.name = "add"    -> AddParticles(prev, 1, [tag |-> <<op.tag>>, id |-> <<op.id>>],
                                               op.align, cur)
         [] op.name = "remove" -> RemoveParticles(prev, op.idx, op.align, cur)
         [] op.name = "set_tag" -> SetTag(prev, op.tag, op.idx, cur)
         [] op.name = "align"  -> Align(prev, cur)

\* No particle is ever duplicated or lost by the permutation algorithms.
IdsDistinct == \A i, j \in 1..Len(rows) : i # j => rows[i]["id"] # rows[j]["id"]
\* The align index array is a permutation of the positions.
IndexIsPermutation == LET ia == AlignIndex(rows)
                      IN {ia[i] : i \in 1..Len(rows)} = 1..Len(rows)
CONSTANT MaxIds
Bound == nextid <= MaxIds
=============================================================================
