---------------------------- MODULE SolverProps ----------------------------
(***************************************************************************)
(* Property layer of C10: predicates over the *observable log* of a run of *)
(* Solver.solve() and its inputs, nothing else.                            *)
(*                                                                         *)
(* A log is a sequence of records                                          *)
(*   [ev, t, dt, count, lim, nom, pos]      (pos: dt > 0 before rounding)  *)
(* ev = "dump": dump_output called at time t, iteration count, dt is the   *)
(*              step size recorded in the solver data;                     *)
(* ev = "step": integrator.step(t, dt);  ev = "pre"/"post": callbacks.     *)
(* lim is the (damped) step size in force, nom the undamped nominal one,   *)
(* both as determined by the environment (the proposals the integrator     *)
(* made, the documented damping factor), not read from the solver.         *)
(* Times are integers; `e` is the slack, in the same unit, allowed where   *)
(* the property says "to rounding" (0 for exact runs).                     *)
(* In is [tf, dt0, pfreq, outs, maxsteps, t0, c0]: t0 and c0 are the time   *)
(* and the iteration count solve() starts from (0 and 0 for a fresh         *)
(* solver; a solver continued after max_steps stopped it, or restarted      *)
(* from saved solver data, starts from where it was).                       *)
(***************************************************************************)
EXTENDS Integers, Sequences, FiniteSets

Abs(x) == IF x < 0 THEN -x ELSE x
Near(a, b, e) == Abs(a - b) <= e

Steps(l) == SelectSeq(l, LAMBDA x : x.ev = "step")
Dumps(l) == SelectSeq(l, LAMBDA x : x.ev = "dump")
Calls(l) == SelectSeq(l, LAMBDA x : x.ev \in {"pre", "step", "post"})
NSteps(l) == Len(Steps(l))
FinalT0(l, t0) == LET S == Steps(l) IN IF S = <<>> THEN t0 ELSE S[Len(S)].t + S[Len(S)].dt
FinalT(l) == FinalT0(l, 0)
FirstStepDt(l) == LET S == Steps(l) IN IF S = <<>> THEN 0 ELSE S[1].dt
Inner(I, e) == {r \in I.outs : r > I.t0 + e /\ r < I.tf - e}

\* (every clause binds Steps / Dumps once: the logs of long runs have
\* thousands of events)
\* solve() terminates with t = tf (unless max_steps stopped it first)
P_Terminates(l, I, e) ==
    /\ l # <<>>
    /\ l[Len(l)].ev = "dump"
    /\ \/ Near(FinalT0(l, I.t0), I.tf, e)
       \/ I.c0 + NSteps(l) = I.maxsteps
       \/ (NSteps(l) = 0 /\ I.c0 >= I.maxsteps)
    /\ (NSteps(l) > 0 => I.c0 + NSteps(l) <= I.maxsteps)

\* time increases strictly
P_Monotone(l, I, e) ==
    LET S == Steps(l) IN \A k \in DOMAIN S : S[k].pos /\ S[k].dt >= 0

\* no step exceeds the current (damped, adaptive or fixed) step size
P_StepBounded(l, I, e) ==
    LET S == Steps(l) IN \A k \in DOMAIN S : S[k].dt <= S[k].lim + e

\* the steps tile [t0, final t]
P_Contiguous(l, I, e) ==
    LET S == Steps(l)
    IN \A k \in DOMAIN S :
         Near(S[k].t, IF k = 1 THEN I.t0 ELSE S[k - 1].t + S[k - 1].dt, e)

P_DumpStart(l, I, e) ==
    /\ l # <<>> /\ l[1].ev = "dump" /\ Near(l[1].t, I.t0, e) /\ l[1].count = I.c0

P_DumpEnd(l, I, e) ==
    /\ l # <<>>
    /\ LET d == l[Len(l)]
       IN d.ev = "dump" /\ Near(d.t, FinalT0(l, I.t0), e)
          /\ d.count = I.c0 + NSteps(l)

\* output at every pfreq-th iteration
P_DumpPfreq(l, I, e) ==
    LET S == Steps(l)
        D == Dumps(l)
        after(k) == IF k = 0 THEN I.t0 ELSE S[k].t + S[k].dt
    IN \A k \in 0..Len(S) :
        (I.c0 + k) % I.pfreq = 0 =>
            \E i \in DOMAIN D : D[i].count = I.c0 + k /\ Near(D[i].t, after(k), e)

\* never past a requested time inside (0, tf)
P_NeverPast(l, I, e) ==
    LET S == Steps(l)
        R == Inner(I, e)
    IN \A k \in DOMAIN S : \A r \in R :
        ~ (S[k].t + e < r /\ r + e < S[k].t + S[k].dt)

\* output at every requested time inside (0, tf) that the run reached
P_DumpAtTimes(l, I, e) ==
    LET D == Dumps(l)
        ft == FinalT0(l, I.t0)
    IN \A r \in Inner(I, e) :
        r <= ft + e => \E i \in DOMAIN D : Near(D[i].t, r, e)

\* the recorded step size is the nominal one.  Dumps made once the step in
\* force reaches tf are not constrained: landing on tf overwrites the
\* solver's only copy of the nominal step (the statement speaks of steps
\* shortened to land on an *output time*).
\* A call of solve() that continues a run which had reached its (then) final
\* time is not constrained either (I.norec): the statement does not say what
\* the nominal step of such a call is, and the solver continues with the
\* clipped last step.
P_RecordedDt(l, I, e) ==
    LET D == Dumps(l)
    IN I.norec \/
       \A i \in DOMAIN D : (D[i].t + D[i].lim < I.tf - e) => Near(D[i].dt, D[i].nom, e)

\* pre-step callback, step, post-step callback: once each per step, in order
P_Callbacks(l, I, e) ==
    LET c == Calls(l)
        n == NSteps(l)
    IN /\ Len(c) = 3 * n
       /\ \A k \in 1..n :
            /\ c[3 * k - 2].ev = "pre"  /\ c[3 * k - 2].count = I.c0 + k - 1
            /\ c[3 * k - 1].ev = "step" /\ c[3 * k - 1].count = I.c0 + k - 1
            /\ c[3 * k].ev = "post"     /\ c[3 * k].count = I.c0 + k - 1

PNames == {"Terminates", "Monotone", "StepBounded", "Contiguous", "DumpStart",
           "DumpEnd", "DumpPfreq", "NeverPast", "DumpAtTimes", "RecordedDt",
           "Callbacks"}

Holds(n, l, I, e) ==
    CASE n = "Terminates"  -> P_Terminates(l, I, e)
      [] n = "Monotone"    -> P_Monotone(l, I, e)
      [] n = "StepBounded" -> P_StepBounded(l, I, e)
      [] n = "Contiguous"  -> P_Contiguous(l, I, e)
      [] n = "DumpStart"   -> P_DumpStart(l, I, e)
      [] n = "DumpEnd"     -> P_DumpEnd(l, I, e)
      [] n = "DumpPfreq"   -> P_DumpPfreq(l, I, e)
      [] n = "NeverPast"   -> P_NeverPast(l, I, e)
      [] n = "DumpAtTimes" -> P_DumpAtTimes(l, I, e)
      [] n = "RecordedDt"  -> P_RecordedDt(l, I, e)
      [] n = "Callbacks"   -> P_Callbacks(l, I, e)

\* the clauses of the property that a complete log violates
Failed(l, I, e) == {n \in PNames : ~ Holds(n, l, I, e)}

\* Known finding C10-first-step (see known_findings.json): requested times
\* strictly inside the first step (of this call of solve()).  Masked(..)
\* removes exactly those.
KnownFirstStep(l, I, e) == {r \in Inner(I, e) : r + e < I.t0 + FirstStepDt(l)}
Masked(l, I, e) == [I EXCEPT !.outs = I.outs \ KnownFirstStep(l, I, e)]
=============================================================================
