---------------------------- MODULE SolverProps ----------------------------
(***************************************************************************)
(* Property layer of C10: predicates over the *observable log* of a run of *)
(* Solver.solve() and its inputs, nothing else.                            *)
(*                                                                         *)
(* A log is a sequence of records                                          *)
(*   [ev, t, dt, count, lim, nom, pos]      (pos: dt > 0 before rounding)  *)
(* ev = "dump": dump_output called at time t, iteration count, dt is the   *)
(*              step size recorded in the solver data;                     *)
(* ev = "step": integrator.step(t, dt);  ev = "pre"/"post": callbacks.     *)
(* lim is the (damped) step size in force, nom the undamped nominal one,   *)
(* both as determined by the environment (the proposals the integrator     *)
(* made, the documented damping factor), not read from the solver.         *)
(* Times are integers; `e` is the slack, in the same unit, allowed where   *)
(* the property says "to rounding" (0 for exact runs).                     *)
(* In is [tf, dt0, pfreq, outs, maxsteps].                                 *)
(***************************************************************************)
EXTENDS Integers, Sequences, FiniteSets

Abs(x) == IF x < 0 THEN -x ELSE x
Near(a, b, e) == Abs(a - b) <= e

Steps(l) == SelectSeq(l, LAMBDA x : x.ev = "step")
Dumps(l) == SelectSeq(l, LAMBDA x : x.ev = "dump")
Calls(l) == SelectSeq(l, LAMBDA x : x.ev \in {"pre", "step", "post"})
NSteps(l) == Len(Steps(l))
\* time after k steps
TimeAfter(l, k) == IF k = 0 THEN 0 ELSE Steps(l)[k].t + Steps(l)[k].dt
FinalT(l) == TimeAfter(l, NSteps(l))
FirstStepDt(l) == IF NSteps(l) = 0 THEN 0 ELSE Steps(l)[1].dt
Inner(I, e) == {r \in I.outs : r > e /\ r < I.tf - e}

\* solve() terminates with t = tf (unless max_steps stopped it first)
P_Terminates(l, I, e) ==
    /\ l # <<>>
    /\ l[Len(l)].ev = "dump"
    /\ \/ Near(FinalT(l), I.tf, e)
       \/ NSteps(l) = I.maxsteps
    /\ NSteps(l) <= I.maxsteps

\* time increases strictly
P_Monotone(l, I, e) ==
    \A k \in 1..NSteps(l) : Steps(l)[k].pos /\ Steps(l)[k].dt >= 0

\* no step exceeds the current (damped, adaptive or fixed) step size
P_StepBounded(l, I, e) ==
    \A k \in 1..NSteps(l) : Steps(l)[k].dt <= Steps(l)[k].lim + e

\* the steps tile [0, final t]
P_Contiguous(l, I, e) ==
    \A k \in 1..NSteps(l) : Near(Steps(l)[k].t, TimeAfter(l, k - 1), e)

P_DumpStart(l, I, e) ==
    /\ l # <<>> /\ l[1].ev = "dump" /\ l[1].t = 0 /\ l[1].count = 0

P_DumpEnd(l, I, e) ==
    /\ l # <<>>
    /\ LET d == l[Len(l)]
       IN d.ev = "dump" /\ Near(d.t, FinalT(l), e) /\ d.count = NSteps(l)

\* output at every pfreq-th iteration
P_DumpPfreq(l, I, e) ==
    \A k \in 0..NSteps(l) :
        k % I.pfreq = 0 =>
            \E i \in 1..Len(Dumps(l)) :
                /\ Dumps(l)[i].count = k
                /\ Near(Dumps(l)[i].t, TimeAfter(l, k), e)

\* never past a requested time inside (0, tf)
P_NeverPast(l, I, e) ==
    \A k \in 1..NSteps(l) : \A r \in Inner(I, e) :
        ~ (Steps(l)[k].t + e < r /\ r + e < Steps(l)[k].t + Steps(l)[k].dt)

\* output at every requested time inside (0, tf) that the run reached
P_DumpAtTimes(l, I, e) ==
    \A r \in Inner(I, e) :
        r <= FinalT(l) + e =>
            \E i \in 1..Len(Dumps(l)) : Near(Dumps(l)[i].t, r, e)

\* the recorded step size is the nominal one.  Dumps made once the step in
\* force reaches tf are not constrained: landing on tf overwrites the
\* solver's only copy of the nominal step (the statement speaks of steps
\* shortened to land on an *output time*).
P_RecordedDt(l, I, e) ==
    \A i \in 1..Len(Dumps(l)) :
        LET d == Dumps(l)[i]
        IN (d.t + d.lim < I.tf - e) => Near(d.dt, d.nom, e)

\* pre-step callback, step, post-step callback: once each per step, in order
P_Callbacks(l, I, e) ==
    LET c == Calls(l)
    IN /\ Len(c) = 3 * NSteps(l)
       /\ \A k \in 1..NSteps(l) :
            /\ c[3 * k - 2].ev = "pre"  /\ c[3 * k - 2].count = k - 1
            /\ c[3 * k - 1].ev = "step" /\ c[3 * k - 1].count = k - 1
            /\ c[3 * k].ev = "post"     /\ c[3 * k].count = k - 1

PNames == {"Terminates", "Monotone", "StepBounded", "Contiguous", "DumpStart",
           "DumpEnd", "DumpPfreq", "NeverPast", "DumpAtTimes", "RecordedDt",
           "Callbacks"}

Holds(n, l, I, e) ==
    CASE n = "Terminates"  -> P_Terminates(l, I, e)
      [] n = "Monotone"    -> P_Monotone(l, I, e)
      [] n = "StepBounded" -> P_StepBounded(l, I, e)
      [] n = "Contiguous"  -> P_Contiguous(l, I, e)
      [] n = "DumpStart"   -> P_DumpStart(l, I, e)
      [] n = "DumpEnd"     -> P_DumpEnd(l, I, e)
      [] n = "DumpPfreq"   -> P_DumpPfreq(l, I, e)
      [] n = "NeverPast"   -> P_NeverPast(l, I, e)
      [] n = "DumpAtTimes" -> P_DumpAtTimes(l, I, e)
      [] n = "RecordedDt"  -> P_RecordedDt(l, I, e)
      [] n = "Callbacks"   -> P_Callbacks(l, I, e)

\* the clauses of the property that a complete log violates
Failed(l, I, e) == {n \in PNames : ~ Holds(n, l, I, e)}

\* Known finding C10-first-step (see known_findings.json): requested times
\* strictly inside the first step.  Masked(..) removes exactly those.
KnownFirstStep(l, I, e) == {r \in Inner(I, e) : r + e < FirstStepDt(l)}
Masked(l, I, e) == [I EXCEPT !.outs = I.outs \ KnownFirstStep(l, I, e)]
=============================================================================
