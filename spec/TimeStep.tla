------------------------------ MODULE TimeStep ------------------------------
(***************************************************************************)
(* C19 - the adaptive time step is the documented minimum.                 *)
(*                                                                         *)
(* A *case* is one configuration handed to Integrator.compute_time_step /  *)
(* Solver._compute_timestep:                                               *)
(*   [id, cfl, dt, fixed_h,                                                *)
(*    arrays : Seq([has   : [adapt, cfl, force, visc : BOOLEAN],           *)
(*                  real  : Seq(particle),    \* the real particles        *)
(*                  ghost : Seq(particle)])]  \* non-real (ghost/remote)   *)
(*   particle = [h, adapt, cfl, force, visc]  (a value is meaningful only  *)
(*              when the array `has` the property)                         *)
(* Every number is an EXACT rational <<num, den>>, den > 0 (JSON [n, d]).  *)
(* `dt` is the fixed (undamped) step of the solver.                        *)
(*                                                                         *)
(* Exact square roots.  The force criterion is sqrt(h/sqrt(f)).  A case is *)
(* WellFormed when every root that the documented formula, the per-particle*)
(* criteria or the mechanism model can take is the root of a rational      *)
(* square: every positive dt_force value f is a square (f = g^4 in all     *)
(* generated inputs), and h/sqrt(f) is a square for every smoothing length *)
(* h and every positive f of the case (also for h = 1, the hard-coded      *)
(* start value of the mechanism).  The generators obtain this by choosing, *)
(* whenever a positive dt_force value occurs in a case, all h = (a/b)^2    *)
(* and all f = (c/d)^4:  sqrt(h/sqrt(f)) = (a d)/(b c).  Cases without a   *)
(* positive dt_force value may use any h (1/2, 2, ...).  All other         *)
(* operations (+ comparison, *, /) are exact on rationals.                 *)
(*                                                                         *)
(* A recorded *result* is [k, v]: k = "num" (v = <<n, d>>, the float       *)
(* result converted exactly and reduced to n, d <= 8191 by the driver),    *)
(* "none" (None returned), "inf" (an infinite float), "error" (the call    *)
(* raised).  All integers stay far below 2^31 (see Close).                 *)
(*                                                                         *)
(* Layers: (P) Allowed/PBounds/Failed restate the property and nothing     *)
(* else; (M) M_* follow the decision structure of the code, parametrised   *)
(* by a set `df` of defects present ({} = the code as it is).              *)
(***************************************************************************)
EXTENDS Integers, Sequences, FiniteSets

-----------------------------------------------------------------------------
(* Exact rationals *)
Abs(x) == IF x < 0 THEN -x ELSE x
RECURSIVE GCD(_, _)
GCD(a, b) == IF b = 0 THEN a ELSE GCD(b, a % b)
R(n, d) == IF n = 0 THEN <<0, 1>>
           ELSE LET g == GCD(Abs(n), d) IN <<n \div g, d \div g>>
N(x) == R(x[1], x[2])
Zero == <<0, 1>>
One == <<1, 1>>
RMul(a, b) == R(a[1] * b[1], a[2] * b[2])
RDiv(a, b) == R(a[1] * b[2], a[2] * b[1])            \* b > 0
RLt(a, b) == a[1] * b[2] < b[1] * a[2]
RLe(a, b) == a[1] * b[2] <= b[1] * a[2]
RPos(a) == a[1] > 0
RMinOf(S) == CHOOSE x \in S : \A y \in S : RLe(x, y)
RMaxOf(S) == CHOOSE x \in S : \A y \in S : RLe(y, x)

RECURSIVE ISqrtB(_, _, _)
ISqrtB(n, lo, hi) ==                      \* largest k in lo..hi with k*k <= n
    IF lo >= hi THEN lo
    ELSE LET m == (lo + hi + 1) \div 2
         IN IF m * m <= n THEN ISqrtB(n, m, hi) ELSE ISqrtB(n, lo, m - 1)
ISqrt(n) == ISqrtB(n, 0, IF n < 46340 THEN n ELSE 46340)
IsSq(n) == n >= 0 /\ ISqrt(n) * ISqrt(n) = n
RIsSq(a) == IsSq(a[1]) /\ IsSq(a[2])                \* a normalised
RSqrt(a) == <<ISqrt(a[1]), ISqrt(a[2])>>            \* exact iff RIsSq(a)

-----------------------------------------------------------------------------
(* Access to a case *)
Criteria == {"cfl", "force", "visc"}
Sels == {"real", "all"}
Arr(c) == 1 .. Len(c.arrays)
NReal(c, a) == Len(c.arrays[a].real)
NAll(c, a) == Len(c.arrays[a].real) + Len(c.arrays[a].ghost)
Parts(c, a, sel) == IF sel = "real" THEN c.arrays[a].real
                    ELSE c.arrays[a].real \o c.arrays[a].ghost
Has(c, a, name) ==
    CASE name = "h" -> TRUE
      [] name = "adapt" -> c.arrays[a].has.adapt
      [] name = "cfl"   -> c.arrays[a].has.cfl
      [] name = "force" -> c.arrays[a].has.force
      [] name = "visc"  -> c.arrays[a].has.visc
Val(p, name) ==
    CASE name = "h" -> N(p.h)
      [] name = "adapt" -> N(p.adapt)
      [] name = "cfl"   -> N(p.cfl)
      [] name = "force" -> N(p.force)
      [] name = "visc"  -> N(p.visc)
\* the values of property `name` over the selected particles of one array /
\* of all arrays that have the property
ArrVals(c, a, name, sel) ==
    {Val(Parts(c, a, sel)[i], name) : i \in 1 .. Len(Parts(c, a, sel))}
Vals(c, name, sel) ==
    UNION {ArrVals(c, a, name, sel) : a \in {b \in Arr(c) : Has(c, b, name)}}

\* every root taken anywhere is exact
WellFormed(c) ==
    \A f \in Vals(c, "force", "all") :
        RPos(f) =>
            /\ RIsSq(f)
            /\ \A h \in Vals(c, "h", "all") \cup {One} :
                   RIsSq(RDiv(h, RSqrt(f)))

-----------------------------------------------------------------------------
(* (P) property layer: the statement of C19 *)
NoneV == [k |-> "none", v |-> Zero]
InfV  == [k |-> "inf", v |-> Zero]
ErrV  == [k |-> "error", v |-> Zero]
Num(x) == [k |-> "num", v |-> x]

\* "the minimum of dt_adapt over the real particles of all arrays when that
\*  property is used and positive"
AdaptVals(c) == Vals(c, "adapt", "real")
AdaptApplies(c) == AdaptVals(c) # {} /\ \A v \in AdaptVals(c) : RPos(v)

\* the step one criterion allows for smoothing length hm and value mx > 0
Crit(name, hm, mx) ==
    IF name = "force" THEN RSqrt(RDiv(hm, RSqrt(mx))) ELSE RDiv(hm, mx)

\* "cfl*min(hmin/max(dt_cfl), sqrt(hmin/sqrt(max(dt_force))),
\*  hmin/max(dt_visc)) over the criteria that are present and positive, with
\*  hmin the smallest smoothing length and the maxima taken over all arrays;
\*  when no criterion applies the fixed step is kept" (None).
\* The statement does not say whether ghost particles count for hmin and
\* for the maxima: hsel / msel leave both readings open.
MaxVal(c, n, sel) ==                    \* 0 when there is no value at all
    LET vs == Vals(c, n, sel) IN IF vs = {} THEN Zero ELSE RMaxOf(vs)
Formula(c, hsel, msel) ==
    LET hs == Vals(c, "h", hsel)
        mx == [n \in Criteria |-> MaxVal(c, n, msel)]
        app == {n \in Criteria : RPos(mx[n])}
    IN IF hs = {} \/ app = {} THEN NoneV
       ELSE LET hm == RMinOf(hs)
            IN Num(RMul(N(c.cfl),
                        RMinOf({Crit(n, hm, mx[n]) : n \in app})))

\* the results the statement allows for compute_time_step
Allowed(c) ==
    IF AdaptApplies(c) THEN {Num(RMinOf(AdaptVals(c)))}
    ELSE {Formula(c, hs, ms) : hs \in Sels, ms \in Sels}

\* ... and for the step the solver proposes (None -> the fixed step is kept)
Kept(c, e) == IF e.k = "none" THEN Num(N(c.dt)) ELSE e
SolverAllowed(c) == {Kept(c, e) : e \in Allowed(c)}

\* "what any single particle's criterion allows": one bound per real
\* particle and applicable criterion, from that particle's own h and value
RealIdx(c, name) ==
    UNION {{<<a, i>> : i \in 1 .. NReal(c, a)} :
           a \in {b \in Arr(c) : Has(c, b, name)}}
PBounds(c) ==
    IF AdaptApplies(c) THEN AdaptVals(c)
    ELSE UNION {
        {RMul(N(c.cfl), Crit(n, Val(c.arrays[x[1]].real[x[2]], "h"),
                             Val(c.arrays[x[1]].real[x[2]], n))) :
         x \in {y \in RealIdx(c, n) :
                RPos(Val(c.arrays[y[1]].real[y[2]], n))}} : n \in Criteria}

\* comparison of a recorded value r with an exact value e: 1 part in 2^20
\* (r[1], r[2] <= 8191 by the driver; e[1], e[2] < 2^17 in every universe:
\* all products < 2^31)
Tol == 1048576
Close(r, e) == Abs(r[1] * e[2] - e[1] * r[2]) <= (e[1] * r[2]) \div Tol
LeTol(r, b) == r[1] * b[2] - b[1] * r[2] <= (b[1] * r[2]) \div Tol
SameV(x, e) == x.k = e.k /\ (x.k = "num" => Close(x.v, e.v))

\* clauses; res = result of compute_time_step, sres = of _compute_timestep
P_Value(c, res, al) == \E e \in al : SameV(res, e)
P_Solver(c, sres, al) == \E e \in al : SameV(sres, Kept(c, e))
P_Bound(c, sres, pb) ==
    pb # {} => /\ sres.k = "num"
               /\ \A b \in pb : LeTol(sres.v, b)
PNames == {"Value", "Solver", "Bound"}
Failed(c, res, sres) ==
    LET al == Allowed(c)
        pb == PBounds(c)
    IN {n \in PNames :
          ~ CASE n = "Value"  -> P_Value(c, res, al)
              [] n = "Solver" -> P_Solver(c, sres, al)
              [] n = "Bound"  -> P_Bound(c, sres, pb)}

-----------------------------------------------------------------------------------------------------------------------------------------------------
(* (M) mechanism layer: the decision structure of                          *)
(* Integrator.compute_time_step / Solver._compute_timestep.  df is a set   *)
(* of *defects present*: {} is the code as it is now (all four repaired in *)
(* /repo, see known_findings.json: status fixed), DefectIds the code       *)
(* before the repairs (MechBefore, kept as documentation and to measure    *)
(* that the case universe is sensitive to each of them).                   *)
DefectIds == {"C19-hmin-starts-at-1", "C19-empty-array-hmin",
              "C19-dt-adapt-ghost-only", "C19-dt-adapt-no-particles"}

\* _get_explicit_dt_adapt: per array np.min(pa.dt_adapt) [real particles]
\* guarded by pa.get_number_of_particles(real=True) > 0, else inf; dt_min
\* starts at inf; returned when 0 < dt_min < inf, else None.
\* Defect ghost-only: the guard counted ALL particles (np.min of an empty
\* selection raises).  Defect no-particles: the test was dt_min > 0 (inf!).
M_ArrAdapt(c, a, df) ==
    LET guard == IF "C19-dt-adapt-ghost-only" \in df
                 THEN NAll(c, a) > 0 ELSE NReal(c, a) > 0
    IN IF ~ guard THEN InfV
       ELSE IF NReal(c, a) = 0 THEN ErrV    \* np.min of an empty selection
       ELSE Num(RMinOf(ArrVals(c, a, "adapt", "real")))
M_ExplicitAdapt(c, df) ==
    LET as == {a \in Arr(c) : Has(c, a, "adapt")}
        ms == {M_ArrAdapt(c, a, df) : a \in as}
        nums == {m.v : m \in {x \in ms : x.k = "num"}}
    IN IF as = {} THEN NoneV
       ELSE IF ErrV \in ms THEN ErrV
       ELSE IF nums = {}
            THEN (IF "C19-dt-adapt-no-particles" \in df THEN InfV ELSE NoneV)
       ELSE IF RPos(RMinOf(nums)) THEN Num(RMinOf(nums)) ELSE NoneV

\* _get_dt_adapt_factors: factors start at -1; _my_max of nothing is -1;
\* pa.get(name) returns the real particles only
M_Factor(c, n) ==
    LET vs == Vals(c, n, "real") IN IF vs = {} THEN <<-1, 1>> ELSE RMaxOf(vs)
M_Factors(c) == [cfl |-> M_Factor(c, "cfl"), force |-> M_Factor(c, "force"),
                 visc |-> M_Factor(c, "visc")]
FacOf(fac, n) == CASE n = "cfl" -> fac.cfl [] n = "force" -> fac.force
                   [] n = "visc" -> fac.visc

\* compute_h_minimum: hmin starts at inf; arrays without particles are
\* skipped; for the others the carray minimum of h over ALL particles.
\* With fixed_h the same function is evaluated once at set-up.
\* Defect hmin-starts-at-1: the start value was 1.0.  Defect empty-array:
\* empty arrays were not skipped (update_min_max gives 0 for an empty
\* carray).
M_HminOver(c, arrs, df) ==
    LET start == IF "C19-hmin-starts-at-1" \in df THEN {One} ELSE {}
        mins == {IF NAll(c, a) = 0 THEN Zero
                 ELSE RMinOf(ArrVals(c, a, "h", "all")) : a \in arrs}
    IN IF start \cup mins = {} THEN InfV ELSE Num(RMinOf(start \cup mins))
NonEmpty(c) == {a \in Arr(c) : NAll(c, a) > 0}
M_Hmin(c, df) ==
    M_HminOver(c, IF "C19-empty-array-hmin" \in df THEN Arr(c)
                  ELSE NonEmpty(c), df)

\* the three candidate steps start at inf; min; <= 0 or inf -> None
M_Combine(c, fac, hmin) ==
    LET app == {n \in Criteria : RPos(FacOf(fac, n))}
    IN IF app = {} \/ hmin.k # "num" THEN NoneV
       ELSE LET m == RMinOf({Crit(n, hmin.v, FacOf(fac, n)) : n \in app})
            IN IF ~ RPos(m) THEN NoneV ELSE Num(RMul(N(c.cfl), m))

MechD(c, df) ==
    LET ad == M_ExplicitAdapt(c, df)
    IN IF ad.k # "none" THEN ad
       ELSE M_Combine(c, M_Factors(c), M_Hmin(c, df))
\* Solver._compute_timestep: None -> the undamped fixed step
M_Solver(c, res) == IF res.k = "none" THEN Num(N(c.dt)) ELSE res

Mech(c) == MechD(c, {})                 \* the code as it is
MechSolver(c) == M_Solver(c, Mech(c))
MechBefore(c) == MechD(c, DefectIds)    \* the code before the four repairs

-----------------------------------------------------------------------------
(* Findings of known_findings.json as predicates over the inputs.  Only    *)
(* findings whose status is "known" may mask a failure; the check passes   *)
(* their ids as K (none at present: all four are fixed, so a recurrence of *)
(* any of them is a VIOLATION).                                            *)
Sig(id, c) ==
    CASE id = "C19-hmin-starts-at-1" ->
           \* all smoothing lengths > 1: hmin is taken as 1.0
           /\ Vals(c, "h", "all") # {}
           /\ \A h \in Vals(c, "h", "all") : RLt(One, h)
      [] id = "C19-empty-array-hmin" ->
           \* an array with no particles is present
           \E a \in Arr(c) : NAll(c, a) = 0
      [] id = "C19-dt-adapt-ghost-only" ->
           \* an array with dt_adapt has particles but no real one
           \E a \in Arr(c) : Has(c, a, "adapt") /\ NReal(c, a) = 0
                             /\ NAll(c, a) > 0
      [] id = "C19-dt-adapt-no-particles" ->
           \* dt_adapt is defined but no array carrying it has a real particle
           /\ \E a \in Arr(c) : Has(c, a, "adapt")
           /\ \A a \in Arr(c) : Has(c, a, "adapt") => NReal(c, a) = 0
Matching(c, K) == {id \in DefectIds \cap K : Sig(id, c)}

ConformsD(c, df) ==
    LET r == MechD(c, df) IN Failed(c, r, M_Solver(c, r)) = {}

\* A failure is attributed to findings of K only when (1) the recorded
\* results are exactly what the mechanism predicts with the defects of K
\* whose signature the input matches, and (2) without those defects the
\* mechanism conforms.  `Needed` names the matching defects each of which
\* alone already breaks the statement on this input.
Explained(c, res, sres, K) ==
    LET d == Matching(c, K)
    IN /\ d # {}
       /\ LET r == MechD(c, d)
          IN SameV(res, r) /\ SameV(sres, M_Solver(c, r))
       /\ ConformsD(c, {})
Needed(c, K) ==
    LET d == Matching(c, K)
        need == {id \in d : ~ ConformsD(c, {id})}
    IN IF need = {} THEN d ELSE need

Verdict(c, res, sres, K) ==
    LET f == Failed(c, res, sres)
        ex == f # {} /\ Explained(c, res, sres, K)
    IN [id |-> c.id, failed |-> f, explained |-> ex,
        known |-> IF ex THEN Needed(c, K) ELSE {},
        wellformed |-> WellFormed(c)]
-----------------------------------------------------------------------------
(* HISTORIES.  One Integrator / NNPS / Solver object is asked for the step *)
(* several times while the arrays change in between as a simulation        *)
(* changes them.  A history is                                             *)
(*   [id, cfl, dt, fixed_h, ndamp, init : arrays,                          *)
(*    asks : Seq([ops, arrays, count, res, kept, step])]                   *)
(* ops are the changes made during the solver step that precedes the ask   *)
(* (none before the first ask), `arrays` the arrays at the time of the     *)
(* ask, count the solver's iteration count; res = what compute_time_step   *)
(* returned, kept = what Solver._compute_timestep returned (the undamped   *)
(* step), step = what Solver._get_timestep returned (the damped step).     *)
(* An op is [op, a, i, h, parts]:                                          *)
(*   "add"        append the real particles `parts` to array a             *)
(*   "removeall"  array a loses all its particles                          *)
(*   "removelast" array a loses its last real particle                     *)
(*   "seth"       real particle i of array a gets smoothing length h       *)
(* The statement is MEMORYLESS: what is documented for an ask depends on   *)
(* the current arrays only (Allowed / PBounds of the current case).  The   *)
(* only state the statement speaks of is "the fixed step is kept": the     *)
(* step in force (the solver's undamped nominal step: the initial dt, or   *)
(* the last step proposed) is what _compute_timestep must return when no   *)
(* criterion applies - in particular while the initial damping is active   *)
(* - and the step taken is that value times the documented damping factor  *)
(* 0.5 (sin(pi (-0.5 + (count + 1)/n_damp)) + 1), count < n_damp.          *)

\* exact for n_damp <= 3 (sin of 0, +-pi/6, pi/2)
DampFactor(n, k) ==
    IF n > 0 /\ k < n
    THEN CASE n = 1 -> One
           [] n = 2 -> (IF k = 0 THEN <<1, 2>> ELSE One)
           [] n = 3 -> (CASE k = 0 -> <<1, 4>> [] k = 1 -> <<3, 4>>
                          [] OTHER -> One)
    ELSE One

ApplyOp(arrs, o) ==
    CASE o.op = "add" -> [arrs EXCEPT ![o.a].real = @ \o o.parts]
      [] o.op = "removeall" ->
           [arrs EXCEPT ![o.a].real = <<>>, ![o.a].ghost = <<>>]
      [] o.op = "removelast" ->
           [arrs EXCEPT ![o.a].real = SubSeq(@, 1, Len(@) - 1)]
      [] o.op = "seth" -> [arrs EXCEPT ![o.a].real[o.i].h = o.h]
RECURSIVE ApplyOps(_, _, _)
ApplyOps(arrs, ops, k) ==
    IF k > Len(ops) THEN arrs ELSE ApplyOps(ApplyOp(arrs, ops[k]), ops, k + 1)

CaseAt(H, k) == [id |-> H.id, cfl |-> H.cfl, dt |-> H.dt,
                 fixed_h |-> H.fixed_h, arrays |-> H.asks[k].arrays]
\* the step in force before ask k
Nominal(H, k) ==
    IF k > 1 /\ H.asks[k - 1].kept.k = "num" THEN H.asks[k - 1].kept.v
    ELSE N(H.dt)

HNames == {"Ops", "Value", "Kept", "Bound", "Damped"}
HFailedAt(H, k) ==
    LET c == CaseAt(H, k)
        q == H.asks[k]
        al == Allowed(c)
        pb == PBounds(c)
        prev == IF k = 1 THEN H.init ELSE H.asks[k - 1].arrays
        nom == Num(Nominal(H, k))
    IN {n \in HNames :
          ~ CASE n = "Ops" -> /\ q.arrays = ApplyOps(prev, q.ops, 1)
                              /\ q.count = k - 1
              [] n = "Value" -> P_Value(c, q.res, al)
              [] n = "Kept" ->
                   \E e \in al : SameV(q.kept, IF e.k = "none" THEN nom ELSE e)
              [] n = "Bound" -> P_Bound(c, q.kept, pb)
              [] n = "Damped" ->
                   q.kept.k = "num" =>
                       /\ q.step.k = "num"
                       /\ Close(q.step.v,
                                RMul(q.kept.v, DampFactor(H.ndamp, q.count)))}
HBad(H) == {k \in 1 .. Len(H.asks) : HFailedAt(H, k) # {}}
HWellFormed(H) == \A k \in 1 .. Len(H.asks) : WellFormed(CaseAt(H, k))

\* (M) the mechanism over a history.  The code keeps no result between two
\* calls (_has_dt_adapt is cached, but the set of properties of an array
\* does not change; h_minimum is recomputed when fixed_h is off); the solver
\* keeps self.dt (the last damped step) and self._damping_factor.  hd is a
\* set of seeded defects used to measure that the history universe is
\* sensitive to them:
\*   "H-cache-nonempty"  the set of non-empty arrays is remembered from the
\*                       first call (hmin only looks at those)
\*   "H-double-damp"     the fall-back keeps self.dt (already damped)
\*                       instead of self.dt / self._damping_factor
HDefectIds == {"H-cache-nonempty", "H-double-damp"}
HM_Res(H, k, hd) ==
    LET c == CaseAt(H, k)
    IN IF "H-cache-nonempty" \in hd
       THEN LET ad == M_ExplicitAdapt(c, {})
            IN IF ad.k # "none" THEN ad
               ELSE M_Combine(c, M_Factors(c),
                              M_HminOver(c, NonEmpty(CaseAt(H, 1)), {}))
       ELSE Mech(c)
HM_Step(H, k, hd, sdt, sfac) ==
    LET res == HM_Res(H, k, hd)
        und == IF "H-double-damp" \in hd THEN sdt ELSE RDiv(sdt, sfac)
        kept == IF res.k = "none" THEN Num(und) ELSE res
        fac == DampFactor(H.ndamp, k - 1)
        step == IF kept.k = "num" THEN Num(RMul(kept.v, fac)) ELSE kept
    IN [res |-> res, kept |-> kept, step |-> step,
        sdt |-> IF step.k = "num" THEN step.v ELSE sdt, sfac |-> fac]
RECURSIVE HM(_, _, _)
HM(H, k, hd) ==
    LET p == IF k = 1 THEN [sdt |-> N(H.dt), sfac |-> One]
             ELSE HM(H, k - 1, hd)
    IN HM_Step(H, k, hd, p.sdt, p.sfac)
RECURSIVE HMechFrom(_, _, _, _)
HMechFrom(H, k, sdt, sfac) ==
    IF k > Len(H.asks) THEN TRUE
    ELSE LET m == HM_Step(H, k, {}, sdt, sfac)
         IN /\ SameV(H.asks[k].res, m.res) /\ SameV(H.asks[k].kept, m.kept)
            /\ SameV(H.asks[k].step, m.step)
            /\ HMechFrom(H, k + 1, m.sdt, m.sfac)
HMechSame(H) == HMechFrom(H, 1, N(H.dt), One)

HVerdict(H) ==
    LET bad == HBad(H)
    IN [id |-> H.id,
        failed |-> UNION {HFailedAt(H, k) : k \in bad},
        step |-> IF bad = {} THEN 0 ELSE CHOOSE k \in bad : \A j \in bad : k <= j,
        explained |-> FALSE, known |-> {},
        wellformed |-> HWellFormed(H)]
-----------------------------------------------------------------------------
(* RUNS.  The real Solver.solve() with adaptive_timestep on, driven by an   *)
(* integrator whose initial evaluation and steps leave a scripted state    *)
(* (h, dt_cfl, dt_force, dt_visc, dt_adapt) in the arrays: "the step       *)
(* proposed for the NEXT iteration is ..." - the statement is about WHEN   *)
(* the criteria are consulted as well.  A run is                           *)
(*   [id, cfl, dt, ndamp, tf, outs, pfreq, maxsteps,                       *)
(*    states : Seq(arrays),     \* states[1] is left by initial_acceleration,*)
(*                              \* states[j+1] by the j-th integrator.step *)
(*    steps  : Seq([t, dt, count, state])]  \* recorded: integrator.step(t, dt)*)
(*                              \* and the index of the state in force     *)
(* (no ghost particles, so Allowed is a single value).  For the j-th step  *)
(* the documented proposal is Allowed(state in force = states[j]); when no *)
(* criterion applies the step in force is kept (the initial dt or the last *)
(* proposal); the step taken is at most the proposal times the damping     *)
(* factor, and equal to it unless tf or a requested output time lies       *)
(* inside the step (C10 decides what exactly happens then).                *)
RAdd(a, b) == R(a[1] * b[2] + b[1] * a[2], a[2] * b[2])
RSub(a, b) == R(a[1] * b[2] - b[1] * a[2], a[2] * b[2])
RStateIdx(U, j) == IF j <= Len(U.states) THEN j ELSE Len(U.states)
RCase(U, j) == [id |-> U.id, cfl |-> U.cfl, dt |-> U.dt, fixed_h |-> FALSE,
                arrays |-> U.states[RStateIdx(U, j)]]
\* the arrays before the initial evaluation: criteria still all zero
ZeroPart(p) == [h |-> p.h, adapt |-> Zero, cfl |-> Zero, force |-> Zero,
                visc |-> Zero]
RPreCase(U) ==
    [id |-> U.id, cfl |-> U.cfl, dt |-> U.dt, fixed_h |-> FALSE,
     arrays |-> [a \in 1 .. Len(U.states[1]) |->
                   [has |-> U.states[1][a].has, ghost |-> <<>>,
                    real |-> [i \in 1 .. Len(U.states[1][a].real) |->
                                ZeroPart(U.states[1][a].real[i])]]]]

RECURSIVE RProp(_, _)
RProp(U, j) ==                       \* undamped proposal for the j-th step
    LET nums == {e.v : e \in {x \in Allowed(RCase(U, j)) : x.k = "num"}}
    IN IF nums # {} THEN RMinOf(nums)
       ELSE IF j = 1 THEN N(U.dt) ELSE RProp(U, j - 1)
RFull(U, j) == RMul(RProp(U, j), DampFactor(U.ndamp, j - 1))
ROuts(U) == {N(U.outs[i]) : i \in 1 .. Len(U.outs)}
RCut(U, j) ==                        \* tf or an output time inside the step
    LET t == N(U.steps[j].t)
        e == RAdd(t, RFull(U, j))
    IN \/ RLt(N(U.tf), e)
       \/ \E r \in ROuts(U) : RLt(t, r) /\ RLt(r, e)

RNames == {"State", "Time", "Bound", "Full", "Steps"}
RFailedAt(U, j) ==
    LET q == U.steps[j]
    IN {n \in RNames :
          ~ CASE n = "State" -> q.state = j /\ q.count = j - 1
              [] n = "Time" ->
                   IF j = 1 THEN N(q.t) = Zero
                   ELSE Close(q.t, RAdd(N(U.steps[j - 1].t),
                                        N(U.steps[j - 1].dt)))
              [] n = "Bound" -> LeTol(q.dt, RFull(U, j))
              [] n = "Full" -> RCut(U, j) \/ Close(q.dt, RFull(U, j))
              [] n = "Steps" ->
                   j < Len(U.steps) \/ j = U.maxsteps
                   \/ Close(RAdd(N(q.t), N(q.dt)), N(U.tf))}
RBad(U) == {j \in 1 .. Len(U.steps) : RFailedAt(U, j) # {}}
RWellFormed(U) == \A j \in 1 .. Len(U.states) : WellFormed(RCase(U, j))

\* (M) the solver loop around the proposals (Solver.solve, _get_timestep,
\* _dump_output_if_needed), all times exact.  A loop state is
\* [t, sdt (solver.dt), sfac (_damping_factor), prev (_prev_dt), count].
\* rd seeds defects to measure the sensitivity of the run universe:
\*   "R-prev-dt-reused"      after a step shortened for an output time the
\*                           saved step is taken without asking again
\*   "R-ask-before-initial"  the first proposal is made before
\*                           initial_acceleration has run
RDefectIds == {"R-prev-dt-reused", "R-ask-before-initial"}
RM_Start(U) == [t |-> Zero, sdt |-> N(U.dt), sfac |-> One, prev |-> NoneV,
                count |-> 0]
RM_Ask(U, st, c, rd) ==              \* _get_timestep on the arrays of case c
    IF st.t = N(U.tf) THEN st
    ELSE LET s1 == IF st.prev.k = "num"
                   THEN [st EXCEPT !.sdt = st.prev.v, !.prev = NoneV] ELSE st
         IN IF "R-prev-dt-reused" \in rd /\ st.prev.k = "num" THEN s1
            ELSE LET res == Mech(c)
                     und == RDiv(s1.sdt, s1.sfac)
                     kept == IF res.k = "num" THEN res.v ELSE und
                     fac == DampFactor(U.ndamp, st.count)
                     d == RMul(kept, fac)
                     d2 == IF RLe(N(U.tf), RAdd(st.t, d))
                           THEN RSub(N(U.tf), st.t) ELSE d
                 IN [s1 EXCEPT !.sdt = d2, !.sfac = fac]
RM_Dump(U, st) ==                    \* _dump_output_if_needed
    LET cand == {i \in 1 .. Len(U.outs) :
                   /\ RLt(st.t, N(U.outs[i]))
                   /\ RLt(RSub(N(U.outs[i]), st.t), st.sdt)}
    IN IF st.t = N(U.tf) \/ cand = {} THEN st
       ELSE LET i == CHOOSE x \in cand : \A y \in cand : x <= y
            IN [st EXCEPT !.prev = Num(st.sdt),
                          !.sdt = RSub(N(U.outs[i]), st.t)]
RM_First(U, rd) ==
    RM_Ask(U, RM_Start(U),
           IF "R-ask-before-initial" \in rd THEN RPreCase(U) ELSE RCase(U, 1),
           rd)
RM_CanStep(U, st) == RLt(st.t, N(U.tf)) /\ st.count < U.maxsteps
\* one iteration: integrator.step(t, sdt) leaves states[count + 2]
RM_Iter(U, st, rd) ==
    LET s1 == [st EXCEPT !.t = RAdd(st.t, st.sdt), !.count = st.count + 1]
    IN RM_Dump(U, RM_Ask(U, s1, RCase(U, st.count + 2), rd))
RM_Log(st) == [t |-> st.t, dt |-> st.sdt, count |-> st.count,
               state |-> st.count + 1]
RECURSIVE RMechFrom(_, _, _)
RMechFrom(U, st, j) ==
    IF j > Len(U.steps) THEN ~ RM_CanStep(U, st)
    ELSE /\ RM_CanStep(U, st)
         /\ Close(U.steps[j].t, st.t) /\ Close(U.steps[j].dt, st.sdt)
         /\ RMechFrom(U, RM_Iter(U, st, {}), j + 1)
RMechSame(U) == RMechFrom(U, RM_First(U, {}), 1)

RVerdict(U) ==
    LET bad == RBad(U)
        f == UNION {RFailedAt(U, j) : j \in bad}
    IN [id |-> U.id,
        failed |-> IF Len(U.steps) = 0 THEN {"Steps"} ELSE f,
        step |-> IF bad = {} THEN 0 ELSE CHOOSE k \in bad : \A j \in bad : k <= j,
        explained |-> FALSE, known |-> {},
        wellformed |-> RWellFormed(U)]
=============================================================================
