------------------------------- MODULE Domain -------------------------------
(***************************************************************************)
(* Periodic and mirror domains (C07): CPUDomainManager.update().           *)
(*                                                                         *)
(* Particles live on an integer lattice.  A particle is a record           *)
(*   [id, x, y, z, h, u, v, w, q, tag]   (q: an extra copied property)     *)
(* A configuration is [lo, hi, per, mir, layer, copyq] with lo/hi tuples of *)
(* three box limits, per/mir tuples of three booleans and                  *)
(* layer = n_layers*radius_scale*hmax.                                     *)
(*                                                                         *)
(* Property layer: the set of ghosts is declaratively the set of images of *)
(* the (wrapped) real particles under every combination of per-axis        *)
(* transformations (periodic shift up/down, reflection at the low/high     *)
(* face) whose layer conditions hold; MustImages <= ghosts <= MayImages    *)
(* (a particle exactly at layer distance may go either way), no duplicate, *)
(* exact copies, mirrored normal velocity, reals only wrapped.             *)
(* Mechanism layer: the per-axis passes of _create_ghosts_periodic /       *)
(* _create_ghosts_mirror (x, then y on reals and earlier images, then z).  *)
(***************************************************************************)
EXTENDS Integers, Sequences, FiniteSets, TLC

Range(f) == {f[i] : i \in DOMAIN f}
Co(p, a) == IF a = 1 THEN p.x ELSE IF a = 2 THEN p.y ELSE p.z
Ve(p, a) == IF a = 1 THEN p.u ELSE IF a = 2 THEN p.v ELSE p.w
SetCo(p, a, c) == IF a = 1 THEN [p EXCEPT !.x = c]
                  ELSE IF a = 2 THEN [p EXCEPT !.y = c] ELSE [p EXCEPT !.z = c]
NegVe(p, a) == IF a = 1 THEN [p EXCEPT !.u = -p.u]
               ELSE IF a = 2 THEN [p EXCEPT !.v = -p.v] ELSE [p EXCEPT !.w = -p.w]
Pos(p) == <<p.x, p.y, p.z>>
T(c, a) == c.hi[a] - c.lo[a]

\* per-axis transformations: 0 none, 1 periodic shift +T (source near the low
\* face), 2 periodic shift -T, 3 reflection at the low face, 4 at the high face
Kinds(c, a) == {0} \cup (IF c.per[a] THEN {1, 2} ELSE {}) \cup
               (IF c.mir[a] THEN {3, 4} ELSE {})
Near(c, p, a, k, strict) ==
    LET dlow == Co(p, a) - c.lo[a]   dhigh == c.hi[a] - Co(p, a)
        d == IF k \in {1, 3} THEN dlow ELSE dhigh
    IN k = 0 \/ (IF strict THEN d < c.layer ELSE d <= c.layer)
Apply1(c, p, a, k) ==
    CASE k = 0 -> p
      [] k = 1 -> SetCo(p, a, Co(p, a) + T(c, a))
      [] k = 2 -> SetCo(p, a, Co(p, a) - T(c, a))
      [] k = 3 -> NegVe(SetCo(p, a, 2 * c.lo[a] - Co(p, a)), a)
      [] k = 4 -> NegVe(SetCo(p, a, 2 * c.hi[a] - Co(p, a)), a)
Apply(c, p, ks) == [Apply1(c, Apply1(c, Apply1(c, p, 1, ks[1]), 2, ks[2]), 3, ks[3])
                    EXCEPT !.tag = 2]
Transforms(c) == {ks \in Kinds(c, 1) \X Kinds(c, 2) \X Kinds(c, 3) : ks # <<0, 0, 0>>}
Images(c, reals, strict) ==
    UNION {{Apply(c, p, ks) : ks \in {k \in Transforms(c) :
                \A a \in 1..3 : Near(c, p, a, k[a], strict)}} : p \in reals}

\* box wrap of one coordinate on a periodic axis
WrapCo(c, a, v) == IF ~c.per[a] THEN v
                   ELSE IF v < c.lo[a] THEN v + T(c, a) ELSE IF v > c.hi[a] THEN v - T(c, a) ELSE v
Wrap(c, p) == [p EXCEPT !.x = WrapCo(c, 1, p.x), !.y = WrapCo(c, 2, p.y),
                        !.z = WrapCo(c, 3, p.z)]

\* what a ghost must look like for comparison: the extra property q is only
\* demanded when it is among the copied properties
\* (q is a double property present from the start; ei/es* are int / strided
\* float properties present from the start, li/lu/ls* int / unsigned /
\* strided double properties added after the first update)
Extra == {"q", "ei", "es0", "es1", "li", "lu", "ls0", "ls1"}
View(c, p) == IF c.copyq THEN p
              ELSE [f \in DOMAIN p |-> IF f \in Extra THEN 0 ELSE p[f]]

(* Property layer over one array: `before` the real particles (sequence)   *)
(* before the update, `after` all rows after it.                           *)
RealsAfter(after) == SelectSeq(after, LAMBDA p : p.tag = 0)
GhostsAfter(after) == SelectSeq(after, LAMBDA p : p.tag # 0)
Count(q, v) == Cardinality({k \in DOMAIN q : q[k] = v})

P_Wrapped(c, before, after) ==
    LET ra == RealsAfter(after)
    IN /\ Len(ra) = Len(before)
       /\ \A k \in DOMAIN before :
             Count(ra, Wrap(c, before[k])) = Count(before, before[k])
P_RealsFirst(after) ==
    \A i, j \in DOMAIN after : (after[i].tag = 0 /\ after[j].tag # 0) => i < j
P_GhostsTagged(after) == \A k \in DOMAIN after : after[k].tag \in {0, 2}
\* number of (real particle, transformation) pairs whose image looks like v
NPairs(c, before, v, strict) ==
    Cardinality({<<k, ks>> \in (DOMAIN before) \X Transforms(c) :
        /\ \A a \in 1..3 : Near(c, Wrap(c, before[k]), a, ks[a], strict)
        /\ View(c, Apply(c, Wrap(c, before[k]), ks)) = v})
GhostViews(c, after) == [k \in DOMAIN GhostsAfter(after) |-> View(c, GhostsAfter(after)[k])]
P_NoneMissing(c, before, after) ==
    LET reals == {Wrap(c, before[k]) : k \in DOMAIN before}
        gs == GhostViews(c, after)
    IN \A v \in {View(c, m) : m \in Images(c, reals, TRUE)} :
          Count(gs, v) >= NPairs(c, before, v, TRUE)
P_NoneSpurious(c, before, after) ==
    LET gs == GhostViews(c, after)
    IN \A v \in Range(gs) : NPairs(c, before, v, FALSE) >= 1
\* no image is created more often than there are ways to obtain it (two
\* different transformations may give indistinguishable images, e.g. of a
\* particle lying on a mirror face with zero normal velocity)
P_NoDuplicates(c, before, after) ==
    LET gs == GhostViews(c, after)
    IN \A v \in Range(gs) : Count(gs, v) <= NPairs(c, before, v, FALSE)
\* a second update without any move gives the same particles
IdemView(c, q) == [k \in DOMAIN q |-> IF q[k].tag = 0 THEN q[k] ELSE View(c, q[k])]
P_Idempotent(c, after0, again0) ==
    LET after == IdemView(c, after0)
        again == IdemView(c, again0)
    IN /\ Len(after) = Len(again)
       /\ \A v \in Range(after) \cup Range(again) : Count(after, v) = Count(again, v)

Clauses == {"Wrapped", "RealsFirst", "GhostsTagged", "NoneMissing",
            "NoneSpurious", "NoDuplicates", "Idempotent"}
Holds(n, c, before, after, again) ==
    CASE n = "Wrapped"      -> P_Wrapped(c, before, after)
      [] n = "RealsFirst"   -> P_RealsFirst(after)
      [] n = "GhostsTagged" -> P_GhostsTagged(after)
      [] n = "NoneMissing"  -> P_NoneMissing(c, before, after)
      [] n = "NoneSpurious" -> P_NoneSpurious(c, before, after)
      [] n = "NoDuplicates" -> P_NoDuplicates(c, before, after)
      [] n = "Idempotent"   -> P_Idempotent(c, after, again)
Failed(c, before, after, again) ==
    {n \in Clauses : ~Holds(n, c, before, after, again)}

-----------------------------------------------------------------------------
(* Mechanism: the passes of the implementation on one array.               *)
Sel(q, a, c, low) ==   \* particles of q within the layer of the low/high face
    SelectSeq(q, LAMBDA p : IF low THEN Co(p, a) - c.lo[a] <= c.layer
                            ELSE c.hi[a] - Co(p, a) <= c.layer)
Map(q, F(_)) == [k \in DOMAIN q |-> F(q[k])]
Ghost(p) == [p EXCEPT !.tag = 2]

PeriodicPass(c, reals, g, a) ==
    IF ~c.per[a] THEN g
    ELSE LET up(p) == Ghost(SetCo(p, a, Co(p, a) + T(c, a)))
             dn(p) == Ghost(SetCo(p, a, Co(p, a) - T(c, a)))
         IN IF a = 1
            THEN g \o Map(Sel(reals, a, c, TRUE), up) \o Map(Sel(reals, a, c, FALSE), dn)
            ELSE g \o Map(Sel(g, a, c, TRUE), up) \o Map(Sel(g, a, c, FALSE), dn)
                   \o Map(Sel(reals, a, c, FALSE), dn) \o Map(Sel(reals, a, c, TRUE), up)
MirrorPass(c, src, g, a) ==
    IF ~c.mir[a] THEN g
    ELSE LET lo(p) == Ghost(NegVe(SetCo(p, a, 2 * c.lo[a] - Co(p, a)), a))
             hi(p) == Ghost(NegVe(SetCo(p, a, 2 * c.hi[a] - Co(p, a)), a))
         IN IF a = 1
            THEN g \o Map(Sel(src, a, c, TRUE), lo) \o Map(Sel(src, a, c, FALSE), hi)
            ELSE g \o Map(Sel(g, a, c, TRUE), lo) \o Map(Sel(g, a, c, FALSE), hi)
                   \o Map(Sel(src, a, c, FALSE), hi) \o Map(Sel(src, a, c, TRUE), lo)

\* update(): remove ghosts, wrap, periodic passes x,y,z, then mirror passes
\* on everything present (reals and periodic images)
MUpdate(c, rows) ==
    LET reals == Map(SelectSeq(rows, LAMBDA p : p.tag = 0), LAMBDA p : Wrap(c, p))
        gp == PeriodicPass(c, reals, PeriodicPass(c, reals,
                    PeriodicPass(c, reals, <<>>, 1), 2), 3)
        src == reals \o gp
        gm == MirrorPass(c, src, MirrorPass(c, src, MirrorPass(c, src, <<>>, 1), 2), 3)
    IN reals \o gp \o gm

-----------------------------------------------------------------------------
(* Design check: all small inputs; the mechanism satisfies the property    *)
(* layer, and a second update changes nothing.                             *)
CONSTANTS Dim, Box, MaxP, Layers, Modes

VARIABLES cfg, before, rows, again, phase
dvars == <<cfg, before, rows, again, phase>>

Lattice == (-1)..(Box + 2)
MkP(i, pos, vel) == [id |-> i, x |-> pos[1], y |-> pos[2], z |-> pos[3], h |-> 1,
                     u |-> vel, v |-> vel + 1, w |-> vel + 2, q |-> 7 + i, tag |-> 0]
Coords == IF Dim = 1 THEN {<<x, 0, 0>> : x \in Lattice}
          ELSE {<<x, y, 0>> : x \in Lattice, y \in Lattice}
Flags(m) == IF Dim = 1 THEN {<<m = "x" \/ m = "xy", FALSE, FALSE>>}
            ELSE {<<m = "x" \/ m = "xy", m = "y" \/ m = "xy", FALSE>>}
NoFlags == <<FALSE, FALSE, FALSE>>

DInit ==
    /\ \E kind \in {"per", "mir"}, m \in Modes, l \in Layers, cq \in BOOLEAN :
          \E f \in Flags(m) :
             cfg = [lo |-> <<0, 1, 0>>, hi |-> <<Box, Box + 2, Box>>, per |-> IF kind = "per" THEN f ELSE NoFlags,
                    mir |-> IF kind = "mir" THEN f ELSE NoFlags, layer |-> l,
                    copyq |-> cq]
    /\ \E n \in 0..MaxP : \E ps \in [1..n -> Coords] :
          before = [i \in 1..n |-> MkP(i, ps[i], i)]
    /\ rows = <<>> /\ again = <<>> /\ phase = "start"

DUpdate == /\ phase = "start" /\ rows' = MUpdate(cfg, before)
           /\ phase' = "updated" /\ UNCHANGED <<cfg, before, again>>
DAgain ==  /\ phase = "updated" /\ again' = MUpdate(cfg, rows)
           /\ phase' = "again" /\ UNCHANGED <<cfg, before, rows>>
DNext == DUpdate \/ DAgain
DSpec == DInit /\ [][DNext]_dvars

MechanismMeetsProperty ==
    phase = "again" => Failed(cfg, before, rows, again) = {}
DebugFailed == phase = "again" /\ Failed(cfg, before, rows, again) # {} =>
    PrintT(<<"FAILED", Failed(cfg, before, rows, again), cfg, before, rows>>) /\ FALSE
=============================================================================
