--------------------------- MODULE ParticleArray ---------------------------
(***************************************************************************)
(* Record-list model of pysph.base.particle_array.ParticleArray (C06).     *)
(*                                                                         *)
(* Abstract state of one array (exactly the projection the harness logs    *)
(* from the real object):                                                  *)
(*   type, stride, dflt : property name -> C type / stride / default       *)
(*   len               : property name -> length of the backing carray     *)
(*   data              : property name -> flat sequence of values          *)
(*   consts            : constant name -> sequence of values               *)
(*   outs              : set of output property names                      *)
(*   nreal             : num_real_particles                                *)
(* The set of property names is DOMAIN type.  A *row* is the record of one *)
(* particle: property name -> tuple of `stride` values.                    *)
(*                                                                         *)
(* Every public operation is a relation Op(pre, args, post).  Where the    *)
(* API does not promise an order (swap-with-last removal, alignment) the   *)
(* relation allows every arrangement of the surviving rows that meets the  *)
(* post-condition, so the implementation's particular permutation is       *)
(* accepted and any other correct one would be too.                        *)
(***************************************************************************)
EXTENDS Integers, Sequences, FiniteSets, TLC

Local == 0
Range(f) == {f[i] : i \in DOMAIN f}
Names(s) == DOMAIN s.type
N(s) == s.len["tag"]                       \* get_number_of_particles()
Chunk(q, j, st) == SubSeq(q, (j - 1) * st + 1, j * st)
Rep(v, n) == [k \in 1..n |-> v]

\* every property holds exactly number_of_particles x stride values
Rect(s) ==
    /\ DOMAIN s.stride = Names(s) /\ DOMAIN s.dflt = Names(s)
    /\ DOMAIN s.len = Names(s) /\ DOMAIN s.data = Names(s)
    /\ \A p \in Names(s) : /\ s.len[p] = N(s) * s.stride[p]
                           /\ Len(s.data[p]) = s.len[p]
MetaOK(s) == /\ {"tag", "pid", "gid"} \subseteq Names(s)
             /\ s.outs \subseteq (Names(s) \cup DOMAIN s.consts)
             /\ Names(s) \cap DOMAIN s.consts = {}
WellFormed(s) == Rect(s) /\ MetaOK(s)

Row(s, i) == [p \in Names(s) |-> Chunk(s.data[p], i, s.stride[p])]
Rows(s) == [i \in 1..N(s) |-> Row(s, i)]
DefRow(s) == [p \in Names(s) |-> Rep(s.dflt[p], s.stride[p])]
IsLocal(r) == r["tag"] = <<Local>>
NumLocal(rows) == Cardinality({i \in DOMAIN rows : IsLocal(rows[i])})
LocalFirst(rows, nr) ==
    /\ nr = NumLocal(rows)
    /\ \A i \in 1..nr : IsLocal(rows[i])
Count(q, x) == Cardinality({i \in DOMAIN q : q[i] = x})
SameBag(a, b) == /\ Len(a) = Len(b)
                 /\ \A x \in Range(a) \cup Range(b) : Count(a, x) = Count(b, x)
SameMeta(s, t) == /\ s.type = t.type /\ s.stride = t.stride /\ s.dflt = t.dflt
SameConsts(s, t) == s.consts = t.consts
Keep(q, drop) ==   \* subsequence of q without the (1-based) positions in drop
    LET F[i \in 0..Len(q)] ==
          IF i = 0 THEN <<>>
          ELSE IF i \in drop THEN F[i - 1] ELSE Append(F[i - 1], q[i])
    IN F[Len(q)]
Restrict(r, ps) == [p \in ps |-> r[p]]

(***************************************************************************)
(* Generic post-condition: the new rows are the expected sequence E, in    *)
(* that order when the operation promises it, or any arrangement of it;    *)
(* when the operation aligns, Local rows come first and nreal is their     *)
(* number, otherwise nreal is left alone.                                  *)
(***************************************************************************)
PostRows(s, t, E, exact, align) ==
    /\ Rect(t)
    /\ IF exact THEN Rows(t) = E ELSE SameBag(Rows(t), E)
    /\ IF align THEN LocalFirst(Rows(t), t.nreal) ELSE t.nreal = s.nreal
Untouched(s, t) == /\ SameMeta(s, t) /\ SameConsts(s, t) /\ t.outs = s.outs

-----------------------------------------------------------------------------
\* add_particles(align, **given): given maps some properties to flat data
AddParticles(s, k, given, align, t) ==
    LET new == [j \in 1..k |->
                 [p \in Names(s) |->
                    IF p \in DOMAIN given THEN Chunk(given[p], j, s.stride[p])
                    ELSE Rep(s.dflt[p], s.stride[p])]]
    IN /\ Untouched(s, t)
       /\ PostRows(s, t, Rows(s) \o new, ~(align /\ k > 0), align /\ k > 0)

\* remove_particles(indices, align); idx is a set of 1-based positions
RemoveParticles(s, idx, align, t) ==
    /\ Untouched(s, t)
    /\ PostRows(s, t, Keep(Rows(s), idx), idx = {},
                align /\ idx # {})

RemoveTagged(s, tag, align, t) ==
    RemoveParticles(s, {i \in 1..N(s) : Row(s, i)["tag"] = <<tag>>}, align, t)

\* extend(k): default rows at the end, nothing else moves
Extend(s, k, t) ==
    /\ Untouched(s, t)
    /\ PostRows(s, t, Rows(s) \o [j \in 1..k |-> DefRow(s)], TRUE, FALSE)

\* append_parray(o, align): rows of o appended; properties only o has are
\* added with o's type/stride/default, properties only s has get defaults
AppendParray(s, o, align, t) ==
    IF N(o) = 0 THEN t = s
    ELSE LET ps  == Names(s) \cup Names(o)
             typ == [p \in ps |-> IF p \in Names(s) THEN s.type[p] ELSE o.type[p]]
             str == [p \in ps |-> IF p \in Names(s) THEN s.stride[p] ELSE o.stride[p]]
             dfl == [p \in ps |-> IF p \in Names(s) THEN s.dflt[p] ELSE o.dflt[p]]
             old == [i \in 1..N(s) |->
                      [p \in ps |-> IF p \in Names(s) THEN Row(s, i)[p]
                                    ELSE Rep(dfl[p], str[p])]]
             new == [j \in 1..N(o) |->
                      [p \in ps |-> IF p \in Names(o) THEN Row(o, j)[p]
                                    ELSE Rep(dfl[p], str[p])]]
         IN /\ t.type = typ /\ t.stride = str /\ t.dflt = dfl
            /\ SameConsts(s, t) /\ t.outs = s.outs
            /\ PostRows(s, t, old \o new, ~align, align)

\* extract_particles(indices, dest_array, align, props): the rows at idx (a
\* sequence of 1-based positions, in the order given) restricted to ps are
\* appended to d; the source is unchanged
ExtractInto(s, idx, ps, d, align, t) ==
    LET new == [j \in 1..Len(idx) |->
                 [p \in Names(d) |-> IF p \in ps THEN Row(s, idx[j])[p]
                                     ELSE Rep(d.dflt[p], d.stride[p])]]
    IN /\ Untouched(d, t)
       /\ IF Len(idx) = 0 THEN t = d
          ELSE PostRows(d, t, Rows(d) \o new, ~align, align)

\* empty_clone(props): same constants, the chosen properties with their
\* type/stride/default (tag, pid, gid always exist), no particles, output
\* list restricted to the chosen properties
BuiltinType == [tag |-> "int", pid |-> "int", gid |-> "unsigned int"]
BuiltinDflt == [tag |-> Local, pid |-> 0, gid |-> -1]   \* gid: UINT_MAX as int32
CloneOf(s, ps, all) ==
    LET qs == ps \cup {"tag", "pid", "gid"}
    IN [type   |-> [p \in qs |-> IF p \in ps THEN s.type[p] ELSE BuiltinType[p]],
        stride |-> [p \in qs |-> IF p \in ps THEN s.stride[p] ELSE 1],
        dflt   |-> [p \in qs |-> IF p \in ps THEN s.dflt[p] ELSE BuiltinDflt[p]],
        len    |-> [p \in qs |-> 0],
        data   |-> [p \in qs |-> <<>>],
        consts |-> s.consts,
        outs   |-> IF all THEN s.outs ELSE s.outs \cap ps,
        nreal  |-> 0]
EmptyClone(s, ps, all, t) == t = CloneOf(s, ps, all)

\* add_property(name, type, default, stride [, data]) for a new name
AddProperty(s, name, typ, dflt, stride, hasdata, data, t) ==
    LET ps == Names(s) \cup {name}
    IN /\ t.type = [p \in ps |-> IF p = name THEN typ ELSE s.type[p]]
       /\ t.stride = [p \in ps |-> IF p = name THEN stride ELSE s.stride[p]]
       /\ t.dflt = [p \in ps |-> IF p = name THEN dflt ELSE s.dflt[p]]
       /\ SameConsts(s, t) /\ t.outs = s.outs
       /\ Rect(t)
       /\ IF hasdata /\ N(s) = 0 /\ Len(data) > 0
          THEN \* all other properties are resized to the new length
               /\ N(t) = Len(data) \div stride
               /\ t.nreal = N(t)
               /\ \A i \in 1..N(t) :
                    Row(t, i) = [p \in ps |-> IF p = name
                                              THEN Chunk(data, i, stride)
                                              ELSE Rep(s.dflt[p], s.stride[p])]
          ELSE /\ N(t) = N(s) /\ t.nreal = s.nreal
               /\ \A i \in 1..N(s) :
                    Row(t, i) = [p \in ps |->
                        IF p = name
                        THEN (IF hasdata /\ Len(data) > 0
                              THEN Chunk(data, i, stride) ELSE Rep(dflt, stride))
                        ELSE Row(s, i)[p]]

RemoveProperty(s, name, t) ==
    LET ps == Names(s) \ {name}
    IN /\ t.type = Restrict(s.type, ps) /\ t.stride = Restrict(s.stride, ps)
       /\ t.dflt = Restrict(s.dflt, ps)
       /\ SameConsts(s, t) /\ t.outs = s.outs \ {name}
       /\ Rect(t) /\ N(t) = N(s) /\ t.nreal = s.nreal
       /\ \A i \in 1..N(s) : Row(t, i) = Restrict(Row(s, i), ps)

AddConstant(s, name, data, t) ==
    /\ SameMeta(s, t) /\ t.outs = s.outs
    /\ t.consts = [c \in DOMAIN s.consts \cup {name} |->
                     IF c = name THEN data ELSE s.consts[c]]
    /\ PostRows(s, t, Rows(s), TRUE, FALSE)

\* ensure_properties(src, props): every listed property of src that s lacks
\* is added with src's type, stride and default; existing particles get the
\* default
EnsureProperties(s, src, ps, t) ==
    LET new == ps \ Names(s)
        all == Names(s) \cup new
    IN /\ ps \subseteq Names(src)
       /\ t.type = [p \in all |-> IF p \in new THEN src.type[p] ELSE s.type[p]]
       /\ t.stride = [p \in all |-> IF p \in new THEN src.stride[p] ELSE s.stride[p]]
       /\ t.dflt = [p \in all |-> IF p \in new THEN src.dflt[p] ELSE s.dflt[p]]
       /\ SameConsts(s, t) /\ t.outs = s.outs
       /\ Rect(t)
       /\ N(t) = N(s) /\ t.nreal = s.nreal
       /\ \A i \in 1..N(s) :
             Row(t, i) = [p \in all |-> IF p \in new
                                        THEN Rep(src.dflt[p], src.stride[p])
                                        ELSE Row(s, i)[p]]

\* in-place write of an existing constant (set(c=..), pa.c[:] = .., get(c))
SetConstant(s, name, data, t) ==
    /\ name \in DOMAIN s.consts /\ Len(data) = Len(s.consts[name])
    /\ SameMeta(s, t) /\ t.outs = s.outs
    /\ t.consts = [s.consts EXCEPT ![name] = data]
    /\ PostRows(s, t, Rows(s), TRUE, FALSE)

\* resize(size) followed by the harness filling the new region with `fill`
ResizeFill(s, size, fill, t) ==
    LET keep == IF size < N(s) THEN size ELSE N(s)
        new  == [j \in 1..(size - keep) |->
                   [p \in Names(s) |-> Chunk(fill[p], j, s.stride[p])]]
    IN /\ Untouched(s, t)
       /\ PostRows(s, t, SubSeq(Rows(s), 1, keep) \o new, TRUE, FALSE)

SetTag(s, tag, idx, t) ==
    /\ Untouched(s, t)
    /\ PostRows(s, t,
                [i \in 1..N(s) |-> IF i \in idx
                                   THEN [Row(s, i) EXCEPT !["tag"] = <<tag>>]
                                   ELSE Row(s, i)], TRUE, FALSE)

Align(s, t) == /\ Untouched(s, t) /\ PostRows(s, t, Rows(s), FALSE, TRUE)

\* pickle round trip: everything but the output list; nreal recounted
Pickle(s, t) ==
    /\ SameMeta(s, t) /\ SameConsts(s, t) /\ t.outs = {}
    /\ Rect(t) /\ Rows(t) = Rows(s) /\ t.nreal = NumLocal(Rows(s))

\* copy_properties(source, start, end): rows start+1..end of self take the
\* common properties from rows 1.. of source (0-based start, exclusive end)
CopyProperties(s, o, start, end, t) ==
    /\ Untouched(s, t)
    /\ PostRows(s, t,
                [i \in 1..N(s) |->
                   IF i > start /\ i <= end
                   THEN [p \in Names(s) |-> IF p \in Names(o)
                                            THEN Row(o, i - start)[p]
                                            ELSE Row(s, i)[p]]
                   ELSE Row(s, i)], TRUE, FALSE)

SetOutputs(s, ps, t) ==
    /\ SameMeta(s, t) /\ SameConsts(s, t) /\ t.outs = ps
    /\ PostRows(s, t, Rows(s), TRUE, FALSE)
AddOutputs(s, ps, t) ==
    /\ SameMeta(s, t) /\ SameConsts(s, t) /\ t.outs = s.outs \cup ps
    /\ PostRows(s, t, Rows(s), TRUE, FALSE)

\* set(**{p: data}) on whole properties
SetProps(s, given, t) ==
    /\ Untouched(s, t)
    /\ PostRows(s, t,
                [i \in 1..N(s) |->
                   [p \in Names(s) |-> IF p \in DOMAIN given
                                       THEN Chunk(given[p], i, s.stride[p])
                                       ELSE Row(s, i)[p]]], TRUE, FALSE)
=============================================================================
