-------------------------------- MODULE NNPS --------------------------------
(***************************************************************************)
(* Nearest-neighbour particle search (C01) and spatial re-ordering (C17).  *)
(*                                                                         *)
(* Particles live on an integer lattice (the replay harness maps one unit  *)
(* to a power of two, so every distance computation of the implementation  *)
(* is exact).  An array is a record of equally long sequences              *)
(*   [x, y, z, h, id, tag].                                                *)
(*                                                                         *)
(* Property layer: Must / May / QueryFail (the contract every algorithm    *)
(* class has to meet), IsPermutation / SameParticles / RealsFirst.         *)
(* Mechanism layer (shared design of all classes): bin particles into      *)
(* cells of size radius_scale*hmax as of the last update(), search the     *)
(* 3^d stencil of the query point's cell, accept by the gather-or-scatter  *)
(* test.  The 12 classes are not modelled one by one: each is bound to the *)
(* contract by replay (TraceNNPS.tla).                                     *)
(***************************************************************************)
EXTENDS Integers, Sequences, FiniteSets, TLC

Max(a, b) == IF a > b THEN a ELSE b
Sq(a) == a * a
NP(a) == Len(a.h)

Dist2(A, d, i, s, j) ==
    Sq(A[d].x[i] - A[s].x[j]) + Sq(A[d].y[i] - A[s].y[j]) + Sq(A[d].z[i] - A[s].z[j])
Cut2(A, rs, d, i, s, j) == Sq(rs * Max(A[d].h[i], A[s].h[j]))

\* every source particle strictly inside the cut-off must be returned, none
\* beyond it may be; a pair exactly at the cut-off may go either way
Must(A, rs, d, s, i) == {j \in 1..NP(A[s]) : Dist2(A, d, i, s, j) < Cut2(A, rs, d, i, s, j)}
May(A, rs, d, s, i)  == {j \in 1..NP(A[s]) : Dist2(A, d, i, s, j) <= Cut2(A, rs, d, i, s, j)}

\* q = <<d, s, i, nbrs>> with 0-based indices as returned by the code
QueryFail(A, rs, q) ==
    LET d == q[1] + 1  s == q[2] + 1  i == q[3] + 1  nb == q[4]
        res == {nb[k] + 1 : k \in DOMAIN nb}
    IN (IF Cardinality(res) # Len(nb) THEN {"duplicate"} ELSE {}) \cup
       (IF \E k \in DOMAIN nb : nb[k] < 0 \/ nb[k] >= NP(A[s])
        THEN {"invalid-index"} ELSE {}) \cup
       (IF ~(Must(A, rs, d, s, i) \subseteq res) THEN {"missing"} ELSE {}) \cup
       (IF ~({r \in res : r <= NP(A[s])} \subseteq May(A, rs, d, s, i))
        THEN {"extra"} ELSE {})

\* all (dst, src, i) were answered
AllQueried(A, results) ==
    {<<results[k][1], results[k][2], results[k][3]>> : k \in DOMAIN results} =
    UNION {{<<d - 1, s - 1, i - 1>> : i \in 1..NP(A[d])} : d \in DOMAIN A, s \in DOMAIN A}

NbrSymmetric(A, rs) ==
    \A d \in DOMAIN A, s \in DOMAIN A : \A i \in 1..NP(A[d]), j \in 1..NP(A[s]) :
        j \in Must(A, rs, d, s, i) <=> i \in Must(A, rs, s, d, j)

-----------------------------------------------------------------------------
(* C17: spatial re-ordering *)
RowOf(a, r) == <<a.x[r], a.y[r], a.z[r], a.h[r], a.id[r], a.tag[r]>>
RowsOf(a) == [r \in 1..NP(a) |-> RowOf(a, r)]
Count(q, v) == Cardinality({k \in DOMAIN q : q[k] = v})
SameBag(p, q) == /\ Len(p) = Len(q)
                 /\ \A v \in {p[k] : k \in DOMAIN p} \cup {q[k] : k \in DOMAIN q} :
                        Count(p, v) = Count(q, v)
IsPermutation(idx, n) == Len(idx) = n /\ {idx[k] : k \in DOMAIN idx} = 0..(n - 1)
RealsFirst(a, nreal) ==
    /\ nreal = Cardinality({r \in 1..NP(a) : a.tag[r] = 0})
    /\ \A r \in 1..nreal : a.tag[r] = 0

-----------------------------------------------------------------------------
(* Mechanism: binning + stencil + acceptance test, as a state machine with *)
(* the snapshot semantics of update().  Used by the design check only.     *)
CONSTANTS Dim, L, MaxN, MaxN2, HVals, RS

VARIABLES arr,      \* the live arrays
          cell,     \* cell size as of the last update_domain()
          org,      \* origin of the cell grid (any offset)
          bins,     \* bins[a][r]: cell (tuple) of particle r of array a at update()
          fresh     \* no mutation since the last update()

mvars == <<arr, cell, org, bins, fresh>>

Floor(a, b) == IF a >= 0 THEN a \div b ELSE -((-a + b - 1) \div b)
CellOf(a, r, c, o) == <<Floor(a.x[r] - o, c), Floor(a.y[r] - o, c), Floor(a.z[r] - o, c)>>
Adjacent(p, q) == \A k \in 1..3 : p[k] - q[k] \in {-1, 0, 1}
HMax(A) == LET hs == UNION {{A[a].h[r] : r \in 1..NP(A[a])} : a \in DOMAIN A}
           IN IF hs = {} THEN 1 ELSE CHOOSE m \in hs : \A v \in hs : v <= m

\* find_nearest_neighbors: stencil of the *binned* cell of i, live coordinates
MQuery(d, s, i) ==
    {j \in 1..NP(arr[s]) :
        /\ j \in DOMAIN bins[s] /\ i \in DOMAIN bins[d]
        /\ Adjacent(bins[d][i], bins[s][j])
        /\ \/ Dist2(arr, d, i, s, j) < Sq(RS * arr[d].h[i])
           \/ Dist2(arr, d, i, s, j) < Sq(RS * arr[s].h[j])}

Coords == IF Dim = 1 THEN {<<x, 0, 0>> : x \in 0..L}
          ELSE IF Dim = 2 THEN {<<x, y, 0>> : x \in 0..L, y \in 0..L}
          ELSE {<<x, y, z>> : x \in 0..L, y \in 0..L, z \in 0..L}
MkArr(ps, hs) == [x |-> [r \in DOMAIN ps |-> ps[r][1]], y |-> [r \in DOMAIN ps |-> ps[r][2]],
                  z |-> [r \in DOMAIN ps |-> ps[r][3]], h |-> hs,
                  id |-> [r \in DOMAIN ps |-> r], tag |-> [r \in DOMAIN ps |-> 0]]
Rebin(A, c, o) == [a \in DOMAIN A |-> [r \in 1..NP(A[a]) |-> CellOf(A[a], r, c, o)]]

Init ==
    /\ \E n1 \in 0..MaxN, n2 \in 0..MaxN2 :
         \E p1 \in [1..n1 -> Coords], p2 \in [1..n2 -> Coords],
            h1 \in [1..n1 -> HVals], h2 \in [1..n2 -> HVals] :
              arr = <<MkArr(p1, h1), MkArr(p2, h2)>>
    /\ cell = RS * HMax(arr)
    /\ org \in -(cell - 1)..0
    /\ bins = Rebin(arr, cell, org)
    /\ fresh = TRUE

Move(a, r, p) ==
    /\ arr' = [arr EXCEPT ![a].x[r] = p[1], ![a].y[r] = p[2], ![a].z[r] = p[3]]
    /\ fresh' = FALSE /\ UNCHANGED <<cell, org, bins>>
SetH(a, r, h) ==
    /\ arr' = [arr EXCEPT ![a].h[r] = h]
    /\ fresh' = FALSE /\ UNCHANGED <<cell, org, bins>>
Update ==
    /\ ~fresh
    /\ cell' = RS * HMax(arr)
    /\ org' \in -(cell' - 1)..0
    /\ bins' = Rebin(arr, cell', org')
    /\ fresh' = TRUE /\ UNCHANGED arr

Next == \/ \E a \in DOMAIN arr : \E r \in 1..NP(arr[a]) :
             (\E p \in Coords : Move(a, r, p)) \/ (\E h \in HVals : SetH(a, r, h))
        \/ Update
Spec == Init /\ [][Next]_mvars

\* Design theorems.
\* With cell = radius_scale*hmax every true neighbour lies in the stencil
StencilSufficient ==
    fresh => \A d \in DOMAIN arr, s \in DOMAIN arr : \A i \in 1..NP(arr[d]) :
               \A j \in Must(arr, RS, d, s, i) : Adjacent(bins[d][i], bins[s][j])
\* hence the mechanism meets the contract whenever the index is fresh
QueryExact ==
    fresh => \A d \in DOMAIN arr, s \in DOMAIN arr : \A i \in 1..NP(arr[d]) :
               /\ Must(arr, RS, d, s, i) \subseteq MQuery(d, s, i)
               /\ MQuery(d, s, i) \subseteq May(arr, RS, d, s, i)
Symmetric == NbrSymmetric(arr, RS)
\* the mutation budget of the design check
CONSTANT Depth
DepthBound == TLCGet("level") <= Depth
=============================================================================
