------------------------- MODULE TraceOutputNames -------------------------
(***************************************************************************)
(* Batch validation of recorded runs (several real dumps into one          *)
(* directory, then load / get_files / load_and_concatenate; see            *)
(* checks/c11_driver.py run_run) against the file-name mapping of          *)
(* Output.tla.  Strings are recorded as lists of characters.               *)
(***************************************************************************)
EXTENDS Output, Json, IOUtils, TLCExt

Traces == ndJsonDeserialize(IOEnv.TRACE_FILE)
VARIABLE tid

SetOf(q) == {q[i] : i \in DOMAIN q}
ConvRun(t) == [t EXCEPT !.listings = [i \in DOMAIN t.listings |->
                                        SetOf(t.listings[i])]]
Verdict(t) ==
    LET r == ConvRun(t)
    IN [id |-> t.id,
        pre |-> t.error # "" \/ RunPre(r),
        failed |-> RunFailed(r),
        known |-> IF t.error = "" THEN RunKnown(r) ELSE {},
        unexplained |-> IF t.error = "" THEN RunUnexplained(r) ELSE RunFailed(r),
        ndumps |-> Len(t.names)]

TInit == tid \in 1..Len(Traces) /\ TLCSet(tid, Verdict(Traces[tid]))
TNext == FALSE /\ tid' = tid
Report == \A i \in 1..Len(Traces) : PrintT(<<"VERDICT", ToJson(TLCGet(i))>>)
=============================================================================
