--------------------------- MODULE TraceSchemes ---------------------------
(***************************************************************************)
(* Validates the abstractions recorded from the real Scheme classes        *)
(* (checks/c12_driver.py).  A batch file holds one configuration per line  *)
(* (see Schemes.tla for the record) plus                                   *)
(*   known_ids : ids of the findings whose status is "known" in            *)
(*               known_findings.json (written by the check).               *)
(* For every configuration the property layer of Schemes.tla is evaluated  *)
(* (Verdict: failed clauses, witnesses = offending (equation, role, array, *)
(* missing names), whether known findings explain the failure and which)   *)
(* and the recorded facts are compared with the mechanism layer (drift:    *)
(* symbol table, Group array derivation, fail-fast checks).  Results are   *)
(* accumulated in TLC registers and printed by the POSTCONDITION.          *)
(***************************************************************************)
EXTENDS Schemes, Json, IOUtils, TLC, TLCExt

Traces == ndJsonDeserialize(IOEnv.TRACE_FILE)
VARIABLE tid

KnownOf(x) == Range(x.known_ids)

TVerdict(x) == [v |-> Verdict(x, KnownOf(x)), drift |-> Drift(x)]

TInit == tid \in 1 .. Len(Traces) /\ TLCSet(tid, TVerdict(Traces[tid]))
TNext == FALSE /\ tid' = tid

Report ==
    \A i \in 1 .. Len(Traces) :
        PrintT(<<"VERDICT", ToJson(TLCGet(i))>>)
=============================================================================
