---------------------------- MODULE TimeStepRunMC ----------------------------
(***************************************************************************)
(* Design model for the run leg of C19: the solver loop (Solver.solve,     *)
(* _get_timestep, _dump_output_if_needed: RM_* of TimeStep.tla) around the *)
(* decision structure of compute_time_step, while the integrator leaves a  *)
(* different scripted state after the initial evaluation and after every   *)
(* step.  Invariant Documented: every integrator.step(t, dt) of every run  *)
(* satisfies RFailedAt = {} - dt is at most (damping factor) x (documented *)
(* proposal for the state in force at that moment), and equal to it unless *)
(* tf or a requested output time lies inside the step.  RDf seeds a defect *)
(* of the loop (the step saved before a shortened step is re-used without  *)
(* asking again; the first proposal is made before initial_acceleration):  *)
(* TLC must then find a violating run.                                     *)
(*                                                                         *)
(* Universe: three arrays in every order - E (dt_cfl, no particles), A     *)
(* (dt_cfl, one particle, h = 1), B (no criterion, one particle whose h    *)
(* may be the smallest) - so that an empty array stands before and after   *)
(* the binding ones; per state dt_cfl of A in CVals and h of B in BH;      *)
(* NStates states, MaxSteps steps; n_damp in NDamps; output times OutSets; *)
(* tf in Tfs; cfl 1/2, fixed step Dt.  Every run is printed (Emit) and     *)
(* executed by the real Solver.solve() in the check.                       *)
(***************************************************************************)
EXTENDS TimeStep, TLC, Json

CONSTANTS NStates, MaxSteps, CVals, BH, NDamps, OutSets, Tfs, Dt, RDf, Emit

\* named value sets (a .cfg cannot contain tuples)
RC3 == {<<0, 1>>, <<4, 1>>, <<16, 1>>}
RC2 == {<<0, 1>>, <<16, 1>>}
RBH2 == {<<1, 4>>, <<1, 1>>}
RBH1 == {<<1, 4>>}
ROut4 == {<<>>, << <<3, 64>> >>, << <<5, 32>> >>, << <<3, 64>>, <<5, 32>> >>}
ROut2 == {<<>>, << <<3, 64>>, <<5, 32>> >>}
RTf1 == {<<1, 1>>}
RTf2 == {<<1, 1>>, <<5, 32>>}
RDtQuarter == <<1, 4>>

VARIABLES run, st, done
vars == <<run, st, done>>

Flags(c) == [adapt |-> FALSE, cfl |-> c, force |-> FALSE, visc |-> FALSE]
Part(h, c) == [h |-> h, adapt |-> Zero, cfl |-> c, force |-> Zero,
               visc |-> Zero]
ArrE == [has |-> Flags(TRUE), real |-> <<>>, ghost |-> <<>>]
ArrA(c) == [has |-> Flags(TRUE), real |-> <<Part(One, c)>>, ghost |-> <<>>]
ArrB(h) == [has |-> Flags(FALSE), real |-> <<Part(h, Zero)>>, ghost |-> <<>>]
Orders == {<<"E", "A", "B">>, <<"E", "B", "A">>, <<"A", "E", "B">>,
           <<"A", "B", "E">>, <<"B", "E", "A">>, <<"B", "A", "E">>}
State(o, c, h) == [i \in 1 .. 3 |->
                     CASE o[i] = "E" -> ArrE [] o[i] = "A" -> ArrA(c)
                       [] o[i] = "B" -> ArrB(h)]

Init ==
    /\ \E o \in Orders, cs \in [1 .. NStates -> CVals],
          hs \in [1 .. NStates -> BH], nd \in NDamps, outs \in OutSets,
          tf \in Tfs :
         run = [id |-> "mc", cfl |-> <<1, 2>>, dt |-> Dt, ndamp |-> nd,
              tf |-> tf, outs |-> outs, pfreq |-> 1, maxsteps |-> MaxSteps,
              states |-> [j \in 1 .. NStates |-> State(o, cs[j], hs[j])],
              steps |-> <<>>]
    /\ st = RM_First(run, RDf)
    /\ done = FALSE

\* one iteration of the solver loop
Step ==
    /\ ~ done /\ RM_CanStep(run, st)
    /\ run' = [run EXCEPT !.steps = Append(@, RM_Log(st))]
    /\ st' = RM_Iter(run, st, RDf)
    /\ UNCHANGED done

Finish ==
    /\ ~ done /\ ~ RM_CanStep(run, st)
    /\ done' = TRUE
    /\ Emit => PrintT(<<"RUN", ToJson([cfl |-> run.cfl, dt |-> run.dt,
                                       ndamp |-> run.ndamp, tf |-> run.tf,
                                       outs |-> run.outs, pfreq |-> run.pfreq,
                                       maxsteps |-> run.maxsteps,
                                       states |-> run.states])>>)
    /\ UNCHANGED <<run, st>>

Next == Step \/ Finish
Spec == Init /\ [][Next]_vars

\* the statement for the last step taken so far ("Steps": only when the run
\* is over)
Documented ==
    /\ Len(run.steps) >= 1 =>
         RFailedAt(run, Len(run.steps)) \ (IF done THEN {} ELSE {"Steps"}) = {}
    /\ done => Len(run.steps) >= 1
\* the loop model used for drift detection reproduces this behaviour
Functional == (done /\ RDf = {}) => RMechSame(run)
=============================================================================
