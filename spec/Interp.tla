------------------------------- MODULE Interp -------------------------------
(***************************************************************************)
(* C14 - interpolation of particle data obeys its defining formulas.       *)
(*                                                                         *)
(* pysph/tools/interpolator.py (Interpolator) and sph_evaluator.py         *)
(* (SPHEvaluator) with the interpolation equations of interpolator.py.     *)
(*                                                                         *)
(* Data (device D1: an integer lattice; the drivers map one unit to a      *)
(* power of two 2^ue, so the code's arithmetic on coordinates is exact):   *)
(*   source array  [name, props, p]   p = Seq(particle), props = the names *)
(*                 of the user properties ("f", "g") this array HAS        *)
(*   particle      [x, y, z, h, m, rho, f, g]  integers, h, m, rho >= 1    *)
(*                 f, g = values of two user properties; interpolate(prop) *)
(*                 sees, on an array lacking prop, the value 0 (EffParts)  *)
(*   target point  [x, y, z, h]   h = smoothing length of the point (given *)
(*                 by the user for SPHEvaluator; the Interpolator sets it  *)
(*                 itself, see THOpts)                                     *)
(* Rationals are normalised pairs <<num, den>> (LinAlg.tla).               *)
(*                                                                         *)
(* Part 1  lattice geometry, the neighbour relation (as NNPS.tla: strictly *)
(*         inside = Must, on the cut-off = May), the probe kernel (D2)     *)
(* Part 2  the documented values of the five methods (exact rationals)     *)
(* Part 3  order1: moment matrix, Cauchy-Binet terms, WellCond             *)
(* Part 4  recorded floats, comparison                                     *)
(* Part 5  property layer: clauses over one recorded Interpolate step      *)
(* Part 6  histories: well-formedness of a recorded behaviour, THOpts,     *)
(*         known-finding signatures, Verdict                               *)
(* The mechanism layer (bindings of evaluator / neighbour search, design   *)
(* check) is InterpMC.tla.                                                 *)
(***************************************************************************)
EXTENDS LinAlg, TLC

(***************************************************************************)
(* Part 1                                                                  *)
(***************************************************************************)
Sq(a) == a * a
Max2(a, b) == IF a > b THEN a ELSE b
Lcm(a, b) == (a \div Gcd(a, b)) * b

RECURSIVE CatParts(_, _)
CatParts(S, k) == IF k = 0 THEN <<>> ELSE CatParts(S, k - 1) \o S[k].p
Parts(S) == CatParts(S, Len(S))                 \* all particles of all arrays
Names(S) == [k \in 1..Len(S) |-> S[k].name]

\* interpolate(prop): "if prop not in array.properties: data = 0.0" - an
\* array lacking the property takes part with the value 0 (it still carries
\* weight in the normalised methods).  EffParts: all particles, with f := the
\* value interpolate(prop) sees.  prop "f" / "g"; any other name is a
\* property no array has.
HasProp(a, prop) == \E i \in 1..Len(a.props) : a.props[i] = prop
EffArr(a, prop) ==
    [k \in 1..Len(a.p) |->
        [a.p[k] EXCEPT !.f = IF ~HasProp(a, prop) THEN 0
                             ELSE IF prop = "f" THEN a.p[k].f ELSE a.p[k].g]]
RECURSIVE CatEff(_, _, _)
CatEff(S, prop, k) ==
    IF k = 0 THEN <<>> ELSE CatEff(S, prop, k - 1) \o EffArr(S[k], prop)
EffParts(S, prop) == CatEff(S, prop, Len(S))

RECURSIVE HMaxR(_, _)
HMaxR(P, k) == IF k = 0 THEN 0 ELSE Max2(P[k].h, HMaxR(P, k - 1))
HMax(S) == HMaxR(Parts(S), Len(Parts(S)))

D2(p, q) == Sq(q.x - p.x) + Sq(q.y - p.y) + Sq(q.z - p.z)
DVec(p, q) == <<q.x - p.x, q.y - p.y, q.z - p.z>>      \* = -XIJ

\* Which smoothing length a method's kernel value uses:
\*   WIJ = W(xij, (h_i + h_j)/2)   shepard, sph, order1
\*   WI  = W(xij, h_i)             splash
\*   WJ  = W(xij, h_j)             splash_norm
WKind(method) == CASE method \in {"shepard", "sph", "order1"} -> "ij"
                   [] method = "splash" -> "i"
                   [] method = "splash_norm" -> "j"
\* twice that smoothing length (an integer)
H2(kind, th, q) == CASE kind = "ij" -> th + q.h
                     [] kind = "i" -> 2 * th
                     [] kind = "j" -> 2 * q.h

\* Support of the kernel value: |xij| < rs * H2/2, rs = <<rn, rd>> the
\* kernel's radius_scale.  Strictly inside: the weight is positive (Must);
\* on the cut-off or inside the range of the neighbour search
\* (rs * max(h_i, h_j), NNPS.tla May): the pair may or may not contribute.
MustContrib(rs, kind, p, th, q) ==
    4 * Sq(rs[2]) * D2(p, q) < Sq(rs[1]) * Sq(H2(kind, th, q))
MayContrib(rs, p, th, q) ==
    Sq(rs[2]) * D2(p, q) <= Sq(rs[1]) * Sq(Max2(th, q.h))

\* The probe kernel (checks/c14_probe.py): radius_scale 2,
\*   W(xij, h) = max(0, (2h)^2 - |xij|^2),  grad W = -2 xij inside, else 0.
\* With h = H2/2:  H2^2 - |xij|^2.  Every pair with W > 0 is strictly inside
\* the range of the neighbour search (H2 <= 2 max(h_i, h_j)), a pair on a
\* cut-off has W = 0: the neighbour search's tie-break never matters.
PW(kind, p, th, q) ==
    LET s == Sq(H2(kind, th, q))
        r == D2(p, q)
    IN IF r < s THEN s - r ELSE 0
ProbeRS == <<2, 1>>

\* Periodic domain (DomainManager): per = <<Lx, Ly, Lz>>, 0 = not periodic.
\* Declaratively (Domain.tla): every source has an image at +-L along each
\* periodic axis; images carry the values of their source.  The lattice
\* cases keep L larger than any kernel support and the targets inside the
\* domain, so further images never matter.
PerShifts(per) ==
    LET S(l) == IF l = 0 THEN {0} ELSE {-l, 0, l}
    IN {<<a, b, c>> : a \in S(per[1]), b \in S(per[2]), c \in S(per[3])}
Shifted(P, s) == [k \in 1..Len(P) |->
                    [P[k] EXCEPT !.x = @ + s[1], !.y = @ + s[2], !.z = @ + s[3]]]
RECURSIVE CatImages(_, _)
CatImages(P, ss) ==
    IF ss = {} THEN <<>>
    ELSE LET s == CHOOSE t \in ss : TRUE
         IN Shifted(P, s) \o CatImages(P, ss \ {s})
WithImages(P, per) ==
    IF per = <<0, 0, 0>> THEN P ELSE CatImages(P, PerShifts(per))

(***************************************************************************)
(* Part 2: the documented values.  P = Parts(sources), p the point, th its *)
(* smoothing length.                                                       *)
(*   shepard      sum_j W_ij f_j / sum_j W_ij          (0 if no weight)    *)
(*   sph          sum_j m_j/rho_j f_j W_ij                                 *)
(*   splash       sum_j m_j/rho_j f_j W_i                                  *)
(*   splash_norm  sum_j m_j/rho_j f_j W_j / sum_j m_j/rho_j W_j            *)
(* rho is the array's own `rho` property.  The common denominator of the   *)
(* m_j/rho_j is L = lcm of the rho; coefficients c_j = L m_j W / rho_j.    *)
(***************************************************************************)
RECURSIVE LcmRhoR(_, _)
LcmRhoR(P, k) == IF k = 0 THEN 1 ELSE Lcm(P[k].rho, LcmRhoR(P, k - 1))
LcmRho(P) == LcmRhoR(P, Len(P))

Normalised(method) == method \in {"shepard", "splash_norm"}
CScale(method, P) == IF method = "shepard" THEN 1 ELSE LcmRho(P)
Coef(method, P, p, th) ==
    LET kind == WKind(method)
        L == CScale(method, P)
    IN [k \in 1..Len(P) |->
           IF method = "shepard" THEN PW(kind, p, th, P[k])
           ELSE (L \div P[k].rho) * P[k].m * PW(kind, p, th, P[k])]
PNum(method, P, p, th) ==
    LET c == Coef(method, P, p, th)
    IN Sum([k \in 1..Len(P) |-> c[k] * P[k].f], Len(P))
PDen(method, P, p, th) == Sum(Coef(method, P, p, th), Len(P))

PValue(method, P, p, th) ==
    IF Normalised(method)
    THEN IF PDen(method, P, p, th) = 0 THEN <<0, 1>>
         ELSE Rat(PNum(method, P, p, th), PDen(method, P, p, th))
    ELSE Rat(PNum(method, P, p, th), CScale(method, P))

\* particles with a positive weight / values they carry
Contrib(kind, P, p, th) == {k \in 1..Len(P) : PW(kind, p, th, P[k]) > 0}
SetMin(S) == CHOOSE v \in S : \A w \in S : v <= w
SetMax(S) == CHOOSE v \in S : \A w \in S : w <= v

(***************************************************************************)
(* Part 3: order1.  For the point p the code accumulates over neighbours   *)
(*   M = sum_j V_j a_j c_j^T,   rhs = sum_j V_j f_j a_j,                   *)
(*   a_j = (W_ij, DWIJ_1 .. DWIJ_dim),  c_j = (1, d_1 .. d_dim),           *)
(*   d = x_j - x_p,  V_j = m_j / rho_j > 0                                 *)
(* (rho_j is recomputed by a summation-density pass first; whatever its    *)
(* value, only V_j > 0 matters below) and solves M u = rhs.  For a linear  *)
(* field f_j = f(p) + g.d_j, so u = (f(p), g) solves the system; it is THE *)
(* solution iff det M # 0.                                                 *)
(* Cauchy-Binet: det M = sum over sets T of dim+1 neighbours of            *)
(*   (prod_{j in T} V_j) det[a_j]_T det[c_j]_T.                            *)
(* WellCond: all these integer terms have one sign and one is non-zero -   *)
(* then det M # 0 for EVERY choice of positive volumes, with no            *)
(* cancellation.  It is a sufficient condition decided exactly on the      *)
(* lattice (32-bit safe); where it does not hold the clause is vacuous.    *)
(***************************************************************************)
ACol(p, th, q, dim) ==
    <<PW("ij", p, th, q)>> \o [c \in 1..dim |-> 2 * DVec(p, q)[c]]
CCol(p, q, dim) == <<1>> \o [c \in 1..dim |-> DVec(p, q)[c]]

RECURSIVE SetSeq(_)
SetSeq(T) == IF T = {} THEN <<>>
             ELSE LET m == SetMin(T) IN <<m>> \o SetSeq(T \ {m})
CBTerm(P, p, th, dim, T) ==
    LET s == SetSeq(T)
        n == dim + 1
        A == [r \in 1..n |-> [c \in 1..n |-> ACol(p, th, P[s[c]], dim)[r]]]
        C == [r \in 1..n |-> [c \in 1..n |-> CCol(p, P[s[c]], dim)[r]]]
    IN Det(A) * Det(C)
CBTerms(P, p, th, dim) ==
    LET N == Contrib("ij", P, p, th)
    IN {CBTerm(P, p, th, dim, T) :
            T \in {U \in SUBSET N : Cardinality(U) = dim + 1}}
MaxNbrsJudged == 12
WellCond(P, p, th, dim) ==
    /\ Cardinality(Contrib("ij", P, p, th)) <= MaxNbrsJudged
    /\ LET ts == CBTerms(P, p, th, dim)
       IN \/ (\A t \in ts : t >= 0) /\ (\E t \in ts : t > 0)
          \/ (\A t \in ts : t <= 0) /\ (\E t \in ts : t < 0)

\* integer moment system for integer volumes V (design model only)
Moment(P, V, p, th, dim) ==
    LET n == dim + 1
        N == SetSeq(Contrib("ij", P, p, th))
    IN [r \in 1..n |-> [c \in 1..n |->
          Sum([k \in 1..Len(N) |-> V[N[k]] * ACol(p, th, P[N[k]], dim)[r]
                                     * CCol(p, P[N[k]], dim)[c]], Len(N))]]
MomentRhs(P, V, p, th, dim) ==
    LET n == dim + 1
        N == SetSeq(Contrib("ij", P, p, th))
    IN [r \in 1..n |->
          Sum([k \in 1..Len(N) |-> V[N[k]] * P[N[k]].f
                                     * ACol(p, th, P[N[k]], dim)[r]], Len(N))]

\* lin = [is, a, b]: the field is f = a + b . x (lattice units)
LinAt(lin, q) == lin.a + lin.b[1] * q.x + lin.b[2] * q.y + lin.b[3] * q.z
IsLinear(P, lin) == lin.is /\ \A k \in 1..Len(P) : P[k].f = LinAt(lin, P[k])
\* expected component c (0 = value, 1..dim = gradient, lattice units)
LinComp(lin, p, c) == IF c = 0 THEN LinAt(lin, p) ELSE lin.b[c]

(***************************************************************************)
(* Part 4: recorded floats.  The driver converts a returned double x       *)
(* exactly: F = the fraction closest to x with denominator <= 2^15         *)
(* (fractions.Fraction.limit_denominator), recorded as i + n/d with        *)
(* i = floor(F), 0 <= n/d < 1, and e = round(|x - F| * 2^40) (capped at    *)
(* 2^30).  k = "num", or "nan" / "inf" for a non-finite value.  Also       *)
(* q = round(x * 2^20) with qok = (|x| < 1000), used where x is no such     *)
(* fraction (shipped kernels).                                             *)
(* Two different fractions with denominators <= 2^15 differ by >= 2^-30;   *)
(* rounding errors of the code are below 1e-11 for the magnitudes used.    *)
(* So for an expected value P/Q with Q <= 2^15:                            *)
(*      x = P/Q to rounding   <=>   F = P/Q  and  e small.                 *)
(***************************************************************************)
DMax == 32768
FloorDiv(a, b) == IF a >= 0 THEN a \div b ELSE -((-a + b - 1) \div b)   \* b > 0
IsNum(v) == v.k = "num"
\* v equals the rational r = <<P, Q>> within tol * 2^-40
Representable(r) == r[2] <= DMax /\ Abs(FloorDiv(r[1], r[2])) < 65536
RecEq(v, r, tol) ==
    /\ IsNum(v) /\ v.e <= tol
    /\ v.i = FloorDiv(r[1], r[2])
    /\ v.n * r[2] = (r[1] - v.i * r[2]) * v.d
RecEqInt(v, c, tol) == IsNum(v) /\ v.e <= tol /\ v.i = c /\ v.n = 0
\* lo <= v <= hi for integers lo, hi, within tol * 2^-40 (exact values)
RecBetween(v, lo, hi, tol) ==
    /\ IsNum(v) /\ v.e <= tol
    /\ lo <= v.i
    /\ v.i < hi \/ (v.i = hi /\ v.n = 0)
\* Values that are not rationals with a small denominator (shipped kernels)
\* are also recorded as q = round(x * 2^20), qok = (|x| < 1000):
\* lo <= v <= hi within 2 * 2^-20, for |lo|, |hi| < 1000
RecBetweenQ(v, lo, hi) ==
    /\ IsNum(v) /\ v.qok
    /\ lo * 1048576 - 2 <= v.q /\ v.q <= hi * 1048576 + 2
TolExact == 1024            \* 2^-30: probe kernel, exact lattice arithmetic
TolFine == 2                \* 1.8e-12: "constant reproduced to 1e-12"
TolLoose == 1048576         \* 2^-20

(***************************************************************************)
(* Part 5: property layer.  One recorded Interpolate step:                 *)
(*   c = [method, dim, exact, rs, api, ue, per]  the configuration         *)
(*   S  the CURRENT source arrays, p the point, th its smoothing length,   *)
(*   lin the claimed linear form of the current field (checked here),      *)
(*   v  = sequence of recorded components (1 for all methods but order1:   *)
(*        value, d/dx, d/dy, d/dz).                                        *)
(* Clauses (names as they appear in `failed`):                             *)
(*   finite     the value is a finite number (all methods but order1)      *)
(*   formula    exact: value = documented sum                              *)
(*   bounds     normalised methods: min <= value <= max of the values of   *)
(*              the contributing sources                                   *)
(*   constant   normalised methods: contributing values all equal c =>     *)
(*              value = c                                                  *)
(*   zero       nothing in range => value = 0 exactly                      *)
(*   linear     order1: linear field, moment matrix well conditioned =>    *)
(*              value and gradient reproduced                              *)
(* With a shipped kernel (exact = FALSE) the contributing set is known up  *)
(* to the pairs between Must and May.                                      *)
(***************************************************************************)
FVals(P, I) == {P[k].f : k \in I}
MustSet(c, P, p, th) ==
    {k \in 1..Len(P) : MustContrib(c.rs, WKind(c.method), p, th, P[k])}
MaySet(c, P, p, th) ==
    IF c.exact THEN MustSet(c, P, p, th)
    ELSE {k \in 1..Len(P) : MayContrib(c.rs, p, th, P[k])}

\* components judged: the value; for order1 also the gradient 1..dim
NComp(c) == IF c.method = "order1" THEN c.dim + 1 ELSE 1

\* (order1 promises nothing where the moment matrix is not well conditioned:
\* its components are judged by `linear` and `zero` only)
ClauseFinite(c, v) == c.method # "order1" => IsNum(v[1])
ClauseFormula(c, P, p, th, v) ==
    (c.exact /\ c.method # "order1") =>
        RecEq(v[1], PValue(c.method, P, p, th), TolExact)
\* the generators keep every expected value within the recorded format
ClauseRepresentable(c, P, p, th) ==
    (c.exact /\ c.method # "order1") =>
        Representable(PValue(c.method, P, p, th))
ClauseBounds(c, P, p, th, v) ==
    Normalised(c.method) =>
        LET may == MaySet(c, P, p, th)
            must == MustSet(c, P, p, th)
            vals == FVals(P, may) \cup (IF must = {} THEN {0} ELSE {})
        IN IF c.exact THEN RecBetween(v[1], SetMin(vals), SetMax(vals), TolExact)
           ELSE RecBetweenQ(v[1], SetMin(vals), SetMax(vals))
ClauseConstant(c, P, p, th, v) ==
    (Normalised(c.method) /\ MustSet(c, P, p, th) # {}
     /\ Cardinality(FVals(P, MaySet(c, P, p, th))) = 1) =>
        RecEqInt(v[1], SetMin(FVals(P, MaySet(c, P, p, th))), TolFine)
ClauseZero(c, P, p, th, v) ==
    MaySet(c, P, p, th) = {} =>
        \A j \in 1..NComp(c) : RecEqInt(v[j], 0, 0)
LinearApplies(c, P, p, th, lin) ==
    /\ c.method = "order1" /\ c.exact
    /\ IsLinear(P, lin)
    /\ WellCond(P, p, th, c.dim)
ClauseLinear(c, P, p, th, lin, v) ==
    LinearApplies(c, P, p, th, lin) =>
        \A j \in 1..NComp(c) :
            RecEqInt(v[j], LinComp(lin, p, j - 1), TolLoose)

FailedWith(c, P, p, th, lin, v) ==
    IF ~ClauseRepresentable(c, P, p, th) THEN {"unrepresentable"}
    ELSE IF ~ClauseFinite(c, v) THEN {"finite"}
    ELSE (IF ClauseFormula(c, P, p, th, v) THEN {} ELSE {"formula"})
         \cup (IF ClauseBounds(c, P, p, th, v) THEN {} ELSE {"bounds"})
         \cup (IF ClauseConstant(c, P, p, th, v) THEN {} ELSE {"constant"})
         \cup (IF ClauseZero(c, P, p, th, v) THEN {} ELSE {"zero"})
         \cup (IF ClauseLinear(c, P, p, th, lin, v) THEN {} ELSE {"linear"})

\* which clauses were not vacuous (coverage accounting; `formula` is counted
\* only where some source contributes)
AppliedWith(c, P, p, th, lin) ==
    (IF c.exact /\ c.method # "order1" /\ MustSet(c, P, p, th) # {}
     THEN {"formula"} ELSE {})
    \cup (IF Normalised(c.method) /\ MustSet(c, P, p, th) # {}
          THEN {"bounds"} ELSE {})
    \cup (IF Normalised(c.method) /\ MustSet(c, P, p, th) # {}
             /\ Cardinality(FVals(P, MaySet(c, P, p, th))) = 1
          THEN {"constant"} ELSE {})
    \cup (IF MaySet(c, P, p, th) = {} THEN {"zero"} ELSE {})
    \cup (IF LinearApplies(c, P, p, th, lin) THEN {"linear"} ELSE {})

(***************************************************************************)
(* Part 6: histories.  A recorded behaviour x:                             *)
(*   x.cfg  = [method, dim, exact, rs, api, ue, fe, org, per]  (fe: the    *)
(*   field values are scaled by 2^fe and the results scaled back)         *)
(*   x.names0 = names of the source arrays in the order of construction    *)
(*   x.steps = Seq([act, src, pts, pass, prop, lin, res]) - the abstract   *)
(*   state (pass: which coordinates the last SetPoints passed, PassOK)     *)
(*   AFTER each action (what the driver told the real object); prop = the  *)
(*   property an Interpolate step asks for, lin = the claimed linear form  *)
(*   of the field interpolate(prop) sees (checked: SaneState); for         *)
(*   act = "Interpolate", res[i][j] = recorded component j at point i.     *)
(*   Successive Interpolate steps may ask for different properties: each   *)
(*   result must follow ITS property (nothing staged by an earlier call).  *)
(* Actions: "Reset" (new arrays and new points: construction, or           *)
(* update_particle_arrays + set_interpolation_points on a live object),    *)
(* "SetPoints", "UpdateArrays", "MoveUpdate" (positions / h changed in     *)
(* place, then update()), "SetValues" (f, m, rho changed in place),        *)
(* "Interpolate".  The clauses are evaluated against the state of the      *)
(* SAME step: a result computed from anything older is a violation.        *)
(***************************************************************************)
Acts == {"Reset", "SetPoints", "UpdateArrays", "MoveUpdate", "SetValues",
         "Interpolate"}
Geo(S) == [a \in 1..Len(S) |-> [k \in 1..Len(S[a].p) |->
             <<S[a].p[k].x, S[a].p[k].y, S[a].p[k].z, S[a].p[k].h>>]]
Vals3(S) == [a \in 1..Len(S) |-> [k \in 1..Len(S[a].p) |->
             <<S[a].p[k].m, S[a].p[k].rho, S[a].p[k].f, S[a].p[k].g>>]]
PropsOf(S) == [a \in 1..Len(S) |-> S[a].props]
PtsXYZ(T) == [i \in 1..Len(T) |-> <<T[i].x, T[i].y, T[i].z>>]
\* order1 computes the density of the sources itself (summation density):
\* their rho property may be anything, also unset (0)
SaneState(x, s) ==
    /\ \A k \in 1..Len(Parts(s.src)) :
          LET q == Parts(s.src)[k]
          IN q.h >= 1 /\ q.m >= 1
             /\ (q.rho >= 1 \/ (x.cfg.method = "order1" /\ q.rho >= 0))
    /\ s.lin.is => IsLinear(EffParts(s.src, s.prop), s.lin)
\* set_interpolation_points(x=None, y=None, z=None): "If any of x, y, z is
\* not passed it is assumed to be 0.0".  s.pass[c] tells whether coordinate c
\* was passed at the last Reset / SetPoints; the abstract points carry all
\* three coordinates, an omitted one is the real 0, i.e. the lattice
\* coordinate -org[c] (real = (org + k) * 2^ue).
Coord(p, c) == CASE c = 1 -> p.x [] c = 2 -> p.y [] c = 3 -> p.z
PassOK(x, s) ==
    /\ \E c \in 1..3 : s.pass[c]
    /\ x.cfg.api = "eval" => \A c \in 1..3 : s.pass[c]
    /\ \A i \in 1..Len(s.pts) : \A c \in 1..3 :
          ~s.pass[c] => Coord(s.pts[i], c) = -x.cfg.org[c]
\* step k of x is a step of the state machine
StepOK(x, k) ==
    LET s == x.steps[k]
    IN /\ s.act \in Acts /\ SaneState(x, s)
       /\ k = 1 => s.act = "Reset"
       /\ s.act \in {"Reset", "SetPoints"} => PassOK(x, s)
       /\ (k > 1 /\ s.act \notin {"Reset", "SetPoints"}) =>
              s.pass = x.steps[k - 1].pass
       /\ k > 1 =>
            LET o == x.steps[k - 1]
            IN CASE s.act = "Reset" -> TRUE
                 [] s.act = "SetPoints" -> s.src = o.src
                 [] s.act = "UpdateArrays" ->
                        PtsXYZ(s.pts) = PtsXYZ(o.pts)
                        /\ (x.cfg.api = "interp" \/ s.pts = o.pts)
                 [] s.act = "MoveUpdate" ->
                        s.pts = o.pts /\ Names(s.src) = Names(o.src)
                        /\ PropsOf(s.src) = PropsOf(o.src)
                        /\ Vals3(s.src) = Vals3(o.src)
                 [] s.act = "SetValues" ->
                        s.pts = o.pts /\ Names(s.src) = Names(o.src)
                        /\ PropsOf(s.src) = PropsOf(o.src)
                        /\ Geo(s.src) = Geo(o.src)
                 [] s.act = "Interpolate" ->
                        s.pts = o.pts /\ s.src = o.src
                        /\ Len(s.res) = Len(s.pts)
WellFormed(x) == \A k \in 1..Len(x.steps) : StepOK(x, k)

\* The smoothing length of a target point.  SPHEvaluator: the user's own
\* destination array.  Interpolator: the documentation is silent; the code
\* gives every point the largest source h as of the last
\* set_interpolation_points (Reset / SetPoints).  The largest h of the
\* CURRENT sources is accepted as well (first = what the code does).
RECURSIVE LastSet(_, _)
LastSet(x, k) == IF x.steps[k].act \in {"Reset", "SetPoints"} THEN k
                 ELSE LastSet(x, k - 1)
THOpts(x, k, i) ==
    IF x.cfg.api = "eval" THEN <<x.steps[k].pts[i].h>>
    ELSE LET a == HMax(x.steps[LastSet(x, k)].src)
             b == HMax(x.steps[k].src)
         IN IF a = b THEN <<a>> ELSE <<a, b>>

SrcP(x, k) == WithImages(EffParts(x.steps[k].src, x.steps[k].prop),
                         x.cfg.per)
PointFailed(x, k, i) ==
    LET s == x.steps[k]
        P == SrcP(x, k)
        o == THOpts(x, k, i)
        F(j) == FailedWith(x.cfg, P, s.pts[i], o[j], s.lin, s.res[i])
    IN IF \E j \in 1..Len(o) : F(j) = {} THEN {} ELSE F(1)
PointApplied(x, k, i) ==
    LET s == x.steps[k]
    IN AppliedWith(x.cfg, SrcP(x, k), s.pts[i], THOpts(x, k, i)[1], s.lin)

IStep(x, k) == x.steps[k].act = "Interpolate"
StepFailed(x, k) ==
    IF IStep(x, k)
    THEN UNION {PointFailed(x, k, i) : i \in 1..Len(x.steps[k].pts)}
    ELSE {}

(* Known findings, as signatures over the history.                         *)
(* C14-array-order: the arrays handed to update_particle_arrays (or a      *)
(*   Reset on a live object) are not in the order of construction: the     *)
(*   evaluator rebinds them by name, the neighbour search by position.     *)
OrderSig(x, k) == Names(x.steps[k].src) # x.names0
(* C14-abs-weight-threshold: Shepard / splash_norm divide by the total     *)
(*   weight only if it exceeds the absolute constant 1e-12.  Decided       *)
(*   exactly for the probe kernel when every rho = 1: total weight         *)
(*   = PDen * 2^(2 ue); PDen * 10^12 <= 2^(-2 ue)  <=>                     *)
(*   5^12 <= 2^(-2 ue - 12) \div PDen   (for 0 <= -2 ue - 12 <= 30).       *)
Pow5x12 == 244140625
BelowThreshold(c, P, p, th) ==
    /\ Normalised(c.method) /\ c.exact /\ CScale(c.method, P) = 1
    /\ LET den == PDen(c.method, P, p, th)
           sh == -2 * c.ue - 12
       IN den > 0 /\ sh >= 0 /\ sh <= 30 /\ Pow5x12 <= Pow2(sh) \div den
ThresholdSig(x, k) ==
    \E i \in 1..Len(x.steps[k].pts) :
        \E j \in 1..Len(THOpts(x, k, i)) :
            BelowThreshold(x.cfg, SrcP(x, k), x.steps[k].pts[i],
                           THOpts(x, k, i)[j])
(* C14-order1-3d-stale-rhs: SPHFirstOrderApproximation.initialize resets   *)
(*   3 of the 4 entries of the right-hand side: in 3-D the last one keeps  *)
(*   accumulating, so only the first evaluation after the point array was  *)
(*   created (comp 0 of the first Interpolate since Reset / SetPoints) is  *)
(*   unaffected.  The signature holds for an order1 step in 3-D provided   *)
(*   that unaffected value, if this step has it, is right.                 *)
FirstCompute(x, k) ==
    \A j \in (LastSet(x, k) + 1)..(k - 1) : ~IStep(x, j)
FirstValueOK(x, k) ==
    LET s == x.steps[k]
        P == SrcP(x, k)
    IN \A i \in 1..Len(s.pts) :
         \E j \in 1..Len(THOpts(x, k, i)) :
            LET t == THOpts(x, k, i)[j]
            IN /\ LinearApplies(x.cfg, P, s.pts[i], t, s.lin) =>
                     RecEqInt(s.res[i][1], LinComp(s.lin, s.pts[i], 0),
                              TolLoose)
               /\ MaySet(x.cfg, P, s.pts[i], t) = {} =>
                     RecEqInt(s.res[i][1], 0, 0)
StaleRhsSig(x, k) ==
    /\ x.cfg.method = "order1" /\ x.cfg.dim = 3
    /\ FirstCompute(x, k) => FirstValueOK(x, k)
StepKnown(x, k) ==
    (IF OrderSig(x, k) THEN {"C14-array-order"} ELSE {})
    \cup (IF ThresholdSig(x, k) THEN {"C14-abs-weight-threshold"} ELSE {})
    \cup (IF StaleRhsSig(x, k) THEN {"C14-order1-3d-stale-rhs"} ELSE {})

\* steps with a violated clause: [k, failed, known]
BadSteps(x) ==
    {[k |-> k, failed |-> StepFailed(x, k), known |-> StepKnown(x, k)] :
        k \in {j \in 1..Len(x.steps) : StepFailed(x, j) # {}}}

Verdict(x) ==
    IF ~WellFormed(x)
    THEN [id |-> x.id, failed |-> {"bad_history"}, known |-> {},
          explained |-> FALSE, bad |-> {}, applied |-> {}, isteps |-> 0,
          per_step |-> {}]
    ELSE LET bad == BadSteps(x)
             I == {k \in 1..Len(x.steps) : IStep(x, k)}
         IN [id |-> x.id,
             failed |-> UNION {b.failed : b \in bad},
             known |-> UNION {b.known : b \in bad},
             \* every failing step matches some signature
             explained |-> \A b \in bad : b.known # {},
             bad |-> bad,
             applied |-> UNION {UNION {PointApplied(x, k, i) :
                                  i \in 1..Len(x.steps[k].pts)} : k \in I},
             isteps |-> Cardinality(I),
             \* per Interpolate step: the clauses that were not vacuous
             per_step |-> {[k |-> k,
                            applied |-> UNION {PointApplied(x, k, i) :
                                          i \in 1..Len(x.steps[k].pts)}] :
                              k \in I}]
=============================================================================
