------------------------------ MODULE SetupMC ------------------------------
(***************************************************************************)
(* Design model for C20.  TLC runs the set-up chain's checks (mechanism    *)
(* layer of Setup.tla, as a small state machine shaped like the code) over *)
(* EVERY case of a small universe of problem definitions and compares the  *)
(* result with the contract (property layer).                              *)
(*                                                                         *)
(* Universe.  Three particle arrays pa_d, pa_s1, pa_s2, each with the      *)
(* properties Base and the constants cnst, scn.  Two probe equations:      *)
(*   ProbeA  dest pa_d, sources one of SrcOpts, explicit names and method  *)
(*           placement one of Shapes, precomputed symbols one of SymSets   *)
(*   ProbeB  initialize(d_idx, d_m) on pa_d, no sources (a second equation *)
(*           so that "names the equation" means something)                 *)
(* wrapped (flat list / groups / sub-groups / stages) and built as one of  *)
(* Pairs = <<structure, api>> ("compiler": AccelerationEval + SPHCompiler  *)
(* without integrator; "stepper": the same with an integrator whose        *)
(* stepper ProbeStep for pa_d has stage1(d_idx, d_x, d_au, dt);            *)
(* "evaluator": SPHEvaluator); part Dup: SEVERAL INSTANCES of ProbeA on    *)
(* pa_d with different sources (DupOpts), structure "iterated" = sub-      *)
(* groups of an iterated group; part Multi: an integrator over 2-3 arrays  *)
(* with a stepper class each, given in the orders StepOrders; part Const:  *)
(* constants among the explicit names of both roles, the list of arrays in *)
(* every order; part Stages: a stepper with 3 / 4 stages and names of      *)
(* their own; part Hist: HISTORIES - a complete and an incomplete problem  *)
(* built one after the other in one process, from the same equation        *)
(* objects or fresh ones.  One fault:                                      *)
(*   none | one name removed from one array | the dest or the last source  *)
(*   of one instance of ProbeA, or one stepper's array, misspelt (pa_zz)   *)
(*   [Combo: a removal AND a misspelling]                                  *)
(* The removed name ranges (Wide) over every name some role of the case    *)
(* needs plus two that nothing needs (y when unused, tag), on every array; *)
(* or (not Wide) per array over what that array is asked for, the explicit *)
(* names of the case and tag.                                              *)
(*                                                                         *)
(* Mechanism (pc):  start -> group (group_equations) -> flatten            *)
(* (all_equations, one level of sub-groups) -> dest / sources / props per  *)
(* equation (check_equation_array_properties) -> next stage's evaluator    *)
(* ... -> helpers (SPHCompiler: stepper array names) -> codegen (stepper   *)
(* properties) -> done.  Variant selects what the property check reads     *)
(* ("explicit": method signatures only, the code as it is).                *)
(*                                                                         *)
(* Invariants: Functional (the step-wise machine computes M_Outcome, the   *)
(* functional model used for trace validation); Contract (the statement,   *)
(* no masking): holds for Variant = "closure" (the code since the repair   *)
(* of C20-symbol-requirements-unchecked) and is expected to FAIL - TLC     *)
(* finds a violating case by itself - for "explicit" (the code before the  *)
(* repair), "none", "dedup", "laststepper", "constleak", "stage12" and     *)
(* "memo" (seeded defects): the universe is sensitive to each;             *)
(* ContractOrKnown: every failure is explained by a finding of K.          *)
(***************************************************************************)
EXTENDS Setup, Json

CONSTANTS SymSets, Shapes, SrcOpts, Pairs, Combo, Wide,
          DupShapes, DupSyms, DupOpts, DupPairs,    \* part Dup
          StepStructs, StepOrders,                  \* part Multi
          ConstOrders, ConstPairs,                  \* part Const
          StageOpts, StageOrders,                   \* part Stages
          HistSyms, HistPairs,                      \* part Hist
          Variant,      \* mechanism that is run
          K,            \* ids of findings that may explain a failure
          Emit          \* TRUE: print every case (replayed into the code)

\* named value sets (a .cfg holds no records / nested sets)
SymsQ == {{}, {"DWIJ"}, {"WJ"}, {"VIJ", "EPS"}}
SymsC == {{}, {"VIJ"}, {"WIJ"}}
SymsT == {{}} \cup {{y} : y \in DOMAIN SymTab}
         \cup {{"VIJ", "EPS"}, {"WI", "WJ", "RHOIJ"}}
Shape(d, s, m) == [d |-> d, s |-> s, meth |-> m]
ShapesQ == {Shape({}, {}, "loop"), Shape({"foo"}, {}, "initialize"),
            Shape({"foo", "cnst"}, {"bar"}, "loop")}
ShapesT == ShapesQ \cup {Shape({"foo"}, {"bar"}, "post_loop"),
                         Shape({"h"}, {"u"}, "loop")}
SrcQ == {<<"pa_s1", "pa_s2">>, <<"pa_d", "pa_s1">>, <<>>}
SrcT == SrcQ \cup {<<"pa_s1">>}
\* <<structure, api>> (SPHEvaluator takes no MultiStageEquations)
PairsT == ({"flat", "group", "nested", "multistage"}
           \X {"compiler", "stepper", "evaluator"})
          \ {<<"multistage", "evaluator">>}
PairsQ == {<<"flat", "compiler">>, <<"group", "stepper">>,
           <<"nested", "evaluator">>, <<"multistage", "stepper">>,
           <<"nested", "compiler">>}
PairsC == PairsQ \cup {<<"flat", "evaluator">>}
\* part Dup: the sources of the instances of ProbeA
DupShapesQ == {Shape({}, {}, "loop"), Shape({"foo", "cnst"}, {"bar"}, "loop")}
DupSymsQ == {{}, {"VIJ"}}
DupSymsT == {{}, {"VIJ"}, {"WJ"}, {"RHOIJ1"}}
DupOptsQ == {<<<<"pa_s1">>, <<"pa_s2">>>>, <<<<"pa_d", "pa_s2">>, <<"pa_s1">>>>}
DupOptsT == DupOptsQ \cup {<<<<"pa_s1">>, <<"pa_s1", "pa_s2">>>>,
                           <<<<"pa_s1">>, <<"pa_d">>, <<"pa_s2">>>>}
DupPairsQ == {<<"flat", "compiler">>, <<"group", "compiler">>,
              <<"iterated", "compiler">>, <<"nested", "evaluator">>}
DupPairsT == DupPairsQ \cup {<<"multistage", "stepper">>,
                             <<"iterated", "evaluator">>,
                             <<"flat", "stepper">>}
\* part Multi: the order in which the arrays are given to the integrator
\* (the code checks in that order and generates in sorted order)
StepStructsQ == {"flat"}
StepStructsT == {"flat", "group", "multistage"}
StepOrdersQ == {<<"pa_d", "pa_s1", "pa_s2">>, <<"pa_s2", "pa_d", "pa_s1">>,
                <<"pa_s1", "pa_d">>}
AllOrders == {<<"pa_d", "pa_s1", "pa_s2">>, <<"pa_d", "pa_s2", "pa_s1">>,
              <<"pa_s1", "pa_d", "pa_s2">>, <<"pa_s1", "pa_s2", "pa_d">>,
              <<"pa_s2", "pa_d", "pa_s1">>, <<"pa_s2", "pa_s1", "pa_d">>}
StepOrdersT == AllOrders \cup {<<"pa_s1", "pa_d">>, <<"pa_d", "pa_s2">>}
\* part Const: the order of the list of particle arrays
ConstOrdersQ == AllOrders
ConstPairsQ == {<<"flat", "compiler">>, <<"group", "evaluator">>}
ConstPairsT == ConstPairsQ \cup {<<"multistage", "stepper">>,
                                 <<"nested", "compiler">>}
\* part Stages: the methods of the stepper of pa_d, names of their own each
Me(m, d) == [m |-> m, d |-> d]
Stages3 == <<Me("stage1", {"x", "au"}), Me("stage2", {"x", "u"}),
             Me("stage3", {"x", "foo"})>>
Stages4 == <<Me("initialize", {"x", "rho"}), Me("stage1", {"au"}),
             Me("stage2", {"u"}), Me("stage3", {"foo"}),
             Me("stage4", {"bar", "cnst"})>>
StageOptsQ == {Stages3, Stages4}
StageOrdersQ == {<<"pa_d">>, <<"pa_s1", "pa_d">>}
StageOrdersT == StageOrdersQ \cup {<<"pa_d", "pa_s2">>}
\* part Hist
HistSymsQ == {{"VIJ"}}
HistSymsT == {{}, {"VIJ"}, {"WJ"}}
HistPairsQ == {<<"flat", "compiler">>, <<"group", "stepper">>}
HistPairsT == HistPairsQ \cup {<<"nested", "evaluator">>,
                               <<"multistage", "compiler">>}
KAll == KnownIds
KNone == {}

Base == {"x", "y", "z", "u", "v", "w", "h", "rho", "m", "foo", "bar", "au",
         "tag", "pid", "gid"}
Consts == {"cnst", "scn"}            \* constants (of every array)
ArrNames == <<"pa_d", "pa_s1", "pa_s2">>
Wrong == "pa_zz"

\* h: the history - the problems built one after the other in one process
\* [builds : Seq(case), reuse, mutate]; bi: the build going on; memo: what a
\* mechanism remembers from earlier builds (seeded defect "memo")
VARIABLES h, bi, pc, stage, groups, all, ei, out, memo
vars == <<h, bi, pc, stage, groups, all, ei, out, memo>>
case == h.builds[bi]

-----------------------------------------------------------------------------
(* the universe *)
ProbeA(sh, sy, so) == [name |-> "ProbeA", dest |-> "pa_d", sources |-> so,
                       d |-> sh.d, s |-> sh.s, syms |-> sy,
                       meth |-> sh.meth]
ProbeB == [name |-> "ProbeB", dest |-> "pa_d", sources |-> <<>>,
           d |-> {"m"}, s |-> {}, syms |-> {}, meth |-> "initialize"]
\* a stepper: its methods with the names x of their d_x arguments; d = all
StepRec(a, n, ms) == [array |-> a, name |-> n, meths |-> ms,
                      d |-> UNION {ms[j].d : j \in DOMAIN ms}]
\* one stepper class per array, each with a name of its own
StepFor(a) ==
    CASE a = "pa_d" -> StepRec(a, "ProbeStep", <<Me("stage1", {"x", "au"})>>)
      [] a = "pa_s1" ->
             StepRec(a, "ProbeStepS", <<Me("stage1", {"u", "bar"})>>)
      [] a = "pa_s2" ->
             StepRec(a, "ProbeStepT", <<Me("stage1", {"rho", "m"})>>)
\* sos: the sources of the instances of ProbeA (one instance each, all on
\* pa_d).  ProbeB comes first in the flat and nested structures, after the
\* first instance otherwise.
EqOrder(st, as) == IF st \in {"flat", "nested"} THEN <<ProbeB>> \o as
                   ELSE <<Head(as), ProbeB>> \o Tail(as)
\* ao: the list of particle arrays, in the order it is handed over
FullArrays(ao) == [i \in 1 .. 3 |-> [name |-> ao[i],
                                     props |-> Base \cup Consts,
                                     consts |-> Consts]]
\* (outside part Const the order of the list varies with the structure)
OrderFor(st) ==
    CASE st = "flat" -> <<"pa_d", "pa_s1", "pa_s2">>
      [] st = "group" -> <<"pa_s2", "pa_s1", "pa_d">>
      [] st = "nested" -> <<"pa_s1", "pa_d", "pa_s2">>
      [] st = "multistage" -> <<"pa_s2", "pa_d", "pa_s1">>
      [] st = "iterated" -> <<"pa_s1", "pa_s2", "pa_d">>
\* sts: the steppers, in the order they are given to the integrator
Mk(sh, sy, sos, st, ap, sts, ao) ==
    [api |-> IF ap = "evaluator" THEN "evaluator" ELSE "compiler",
     structure |-> st, arrays |-> FullArrays(ao),
     eqs |-> EqOrder(st, [j \in DOMAIN sos |-> ProbeA(sh, sy, sos[j])]),
     steppers |-> IF ap = "stepper" THEN sts ELSE <<>>]
Steppers(ord) == [j \in DOMAIN ord |-> StepFor(ord[j])]
\* names worth removing: all that some role needs, and two nobody needs
Relevant(c) ==
    UNION {Required(SymTab, c.eqs[i], r, TRUE) :
           i \in DOMAIN c.eqs, r \in {"dest", "source"}}
    \cup UNION {c.steppers[i].d : i \in DOMAIN c.steppers}
    \cup {"y", "tag"}
Remove(c, a, n) ==
    [c EXCEPT !.arrays = [i \in DOMAIN @ |->
        IF @[i].name = a THEN [@[i] EXCEPT !.props = @ \ {n},
                                           !.consts = @ \ {n}]
        ELSE @[i]]]
\* the dest or the last source of ANY instance of ProbeA, the array of ANY
\* stepper
AIdx(c) == {i \in DOMAIN c.eqs : c.eqs[i].name = "ProbeA"}
Misspell(c, w) ==
    LET i == w[2]
    IN CASE w[1] = "dest" -> [c EXCEPT !.eqs[i].dest = Wrong]
         [] w[1] = "source" ->
                [c EXCEPT !.eqs[i].sources[Len(c.eqs[i].sources)] = Wrong]
         [] w[1] = "stepper" -> [c EXCEPT !.steppers[i].array = Wrong]
Misspellings(c) ==
    {<<"dest", i>> : i \in AIdx(c)}
    \cup {<<"source", i>> : i \in {j \in AIdx(c) : Len(c.eqs[j].sources) > 0}}
    \cup {<<"stepper", i>> : i \in DOMAIN c.steppers}
\* what array a is asked for by the equations and steppers applied to it
NeededBy(c, a) ==
    UNION {Required(SymTab, c.eqs[i], "dest", TRUE) :
           i \in {j \in DOMAIN c.eqs : c.eqs[j].dest = a}}
    \cup UNION {Required(SymTab, c.eqs[i], "source", TRUE) :
                i \in {j \in DOMAIN c.eqs : a \in Range(c.eqs[j].sources)}}
    \cup UNION {c.steppers[i].d :
                i \in {j \in DOMAIN c.steppers : c.steppers[j].array = a}}
ExplicitNames(c) == UNION {c.eqs[i].d \cup c.eqs[i].s : i \in DOMAIN c.eqs}
\* Wide: every relevant name from every array; otherwise from each array
\* the names it is asked for, the explicit names of the other role, and tag
Removals(c) ==
    IF Wide THEN {<<ArrNames[i], n>> : i \in 1 .. 3, n \in Relevant(c)}
    ELSE UNION {{<<ArrNames[i], n>> :
                 n \in NeededBy(c, ArrNames[i]) \cup ExplicitNames(c)
                       \cup {"tag"}} : i \in 1 .. 3}
Faulty(c) ==
    {c} \cup {Remove(c, r[1], r[2]) : r \in Removals(c)}
        \cup {Misspell(c, w) : w \in Misspellings(c)}
        \cup (IF Combo
              THEN {Misspell(Remove(c, r[1], r[2]), w) :
                    r \in Removals(c), w \in Misspellings(c)}
              ELSE {})
One(c) == [builds |-> <<c>>, reuse |-> FALSE, mutate |-> FALSE]
\* Histories: a complete problem and the same problem with one needed name
\* removed from one array, built one after the other in either order - from
\* the SAME equation and stepper objects (and then the same array objects
\* with the property removed / added, or new arrays of the same names) or
\* from fresh objects.
Histories(c) ==
    {[builds |-> bs, reuse |-> ru[1], mutate |-> ru[2]] :
     bs \in UNION {UNION {{<<c, Remove(c, a, n)>>, <<Remove(c, a, n), c>>} :
                          n \in NeededBy(c, a)} : a \in Range(ArrNames)},
     ru \in {<<TRUE, TRUE>>, <<TRUE, FALSE>>, <<FALSE, FALSE>>}}

\* Parts.  Core: one instance of ProbeA, at most one stepper.  Dup: SEVERAL
\* INSTANCES of ProbeA on pa_d with different sources (a removal from, or a
\* misspelling of, a source of only the earlier / only the later instance).
\* Multi: an integrator over SEVERAL ARRAYS with a stepper class each, given
\* in every order of StepOrders (exactly one array - first, middle or last
\* given - lacks a name its stepper needs, or is misspelt).  Const: the
\* explicit names include CONSTANTS for both roles and the list of arrays
\* comes in every order (the name an array lacks is a constant of arrays
\* listed before and after it).  Stages: the stepper of pa_d has 3 or 4
\* STAGES (and initialize) with names of their own.  Hist: two builds in one
\* process.
OneStepper == <<StepFor("pa_d")>>
Init ==
    /\ \/ \E sh \in Shapes, sy \in SymSets, so \in SrcOpts, pr \in Pairs :
             \E c \in Faulty(Mk(sh, sy, <<so>>, pr[1], pr[2], OneStepper,
                                OrderFor(pr[1]))) : h = One(c)
       \/ \E sh \in DupShapes, sy \in DupSyms, sos \in DupOpts,
             pr \in DupPairs :
             \E c \in Faulty(Mk(sh, sy, sos, pr[1], pr[2], OneStepper,
                                OrderFor(pr[1]))) : h = One(c)
       \/ \E sy \in DupSyms, st \in StepStructs, ord \in StepOrders :
             \E c \in Faulty(Mk(Shape({"foo"}, {}, "initialize"), sy,
                                <<<<"pa_s1">>>>, st, "stepper",
                                Steppers(ord), OrderFor(st))) : h = One(c)
       \/ \E so \in {<<"pa_s1", "pa_s2">>, <<"pa_d", "pa_s1">>},
             pr \in ConstPairs, ao \in ConstOrders :
             \E c \in Faulty(Mk(Shape({"foo", "cnst"}, {"bar", "scn"},
                                      "loop"), {}, <<so>>, pr[1], pr[2],
                                OneStepper, ao)) : h = One(c)
       \/ \E ms \in StageOpts, ord \in StageOrders :
             \E c \in Faulty(Mk(Shape({}, {}, "loop"), {},
                                <<<<"pa_s1">>>>, "flat", "stepper",
                                [j \in DOMAIN ord |->
                                   IF ord[j] = "pa_d"
                                   THEN StepRec("pa_d", "ProbeStepN", ms)
                                   ELSE StepFor(ord[j])],
                                OrderFor("group"))) : h = One(c)
       \/ \E sy \in HistSyms, pr \in HistPairs :
             h \in Histories(Mk(Shape({"foo", "cnst"}, {"bar"}, "loop"), sy,
                                <<<<"pa_s1">>>>, pr[1], pr[2], OneStepper,
                                OrderFor(pr[1])))
    /\ bi = 1 /\ pc = "start" /\ stage = 0 /\ groups = <<>> /\ all = <<>>
    /\ ei = 0 /\ out = NoRej /\ memo = {}

-----------------------------------------------------------------------------
(* the mechanism, step by step *)
\* Seeded defects (Variant; they measure that the universe is sensitive to
\* them, see Contract).  "dedup": an equation whose class and dest were seen
\* earlier in this evaluator is not checked.  "laststepper": only the
\* stepper given last has its properties checked.  "constleak": an array
\* also counts as having the constants of the arrays listed before it.
\* "stage12": of a stepper only initialize, stage1 and stage2 are checked.
\* "memo": an equation object that passed the check once is not checked
\* again in a later build with arrays of the same names.  Otherwise the
\* repaired mechanism.
NV == IF Variant \in {"explicit", "none"} THEN Variant ELSE "closure"
Leak(c) ==
    [c EXCEPT !.arrays = [i \in DOMAIN @ |->
        [@[i] EXCEPT !.props = @ \cup UNION {c.arrays[l].consts :
                                             l \in 1 .. i}]]]
Seen(c) == IF Variant = "constleak" THEN Leak(c) ELSE c
Early == {"initialize", "stage1", "stage2"}
Cut(c) ==
    [c EXCEPT !.steppers = [i \in DOMAIN c.steppers |->
        LET ms == c.steppers[i].meths
        IN [c.steppers[i] EXCEPT !.d =
               UNION {ms[j].d : j \in {l \in DOMAIN ms : ms[l].m \in Early}}]]]

Start ==
    /\ pc = "start"
    /\ (Emit /\ bi = 1) => PrintT(<<"CASE", ToJson(h)>>)
    /\ pc' = "group" /\ stage' = 1 /\ out' = NoRej
    /\ UNCHANGED <<h, bi, groups, all, ei, memo>>

\* AccelerationEval.__init__ of the evaluator of this stage
GroupEquations ==
    /\ pc = "group"
    /\ groups' = M_Group(Stages(case)[stage])
    /\ pc' = "flatten"
    /\ UNCHANGED <<h, bi, stage, all, ei, out, memo>>

Flatten ==
    /\ pc = "flatten"
    /\ all' = M_Flatten(groups)
    /\ ei' = 1
    /\ pc' = "dest"
    /\ UNCHANGED <<h, bi, stage, groups, out, memo>>

Cur == case.eqs[all[ei].i]
Reject(r) == out' = r /\ pc' = "done"
SeenBefore ==
    \E l \in 1 .. (ei - 1) :
        /\ case.eqs[all[l].i].name = Cur.name
        /\ case.eqs[all[l].i].dest = Cur.dest
Skip == \/ Variant = "dedup" /\ SeenBefore
        \/ Variant = "memo" /\ all[ei].i \in memo

CheckDest ==
    /\ pc = "dest" /\ ei <= Len(all)
    /\ IF Skip
       THEN pc' = "dest" /\ ei' = ei + 1 /\ out' = out
       ELSE /\ ei' = ei
            /\ LET r == M_CheckDest(case, Cur)
               IN IF r.k # "pass" THEN Reject(r)
                  ELSE pc' = "sources" /\ out' = out
    /\ UNCHANGED <<h, bi, stage, groups, all, memo>>

CheckSources ==
    /\ pc = "sources"
    /\ LET r == M_CheckSources(case, Cur)
       IN IF r.k # "pass" THEN Reject(r) ELSE pc' = "props" /\ out' = out
    /\ UNCHANGED <<h, bi, stage, groups, all, ei, memo>>

CheckProps ==
    /\ pc = "props"
    /\ LET r == M_CheckProps(SymTab, Seen(case), Cur, NV)
       IN IF r.k # "pass" THEN Reject(r) /\ ei' = ei /\ memo' = memo
          ELSE /\ pc' = "dest" /\ ei' = ei + 1 /\ out' = out
               /\ memo' = IF h.reuse THEN memo \cup {all[ei].i} ELSE memo
    /\ UNCHANGED <<h, bi, stage, groups, all>>

\* all equations of this evaluator passed: the next stage's, or the compiler
EvalDone ==
    /\ pc = "dest" /\ ei > Len(all)
    /\ IF stage < Len(Stages(case))
       THEN stage' = stage + 1 /\ pc' = "group"
       ELSE stage' = stage /\ pc' = "helpers"
    /\ UNCHANGED <<h, bi, groups, all, ei, out, memo>>

\* SPHCompiler.__init__ -> IntegratorCythonHelper._check_integrator_steppers
Helpers ==
    /\ pc = "helpers"
    /\ LET r == M_StepperNames(case)
       IN IF r.k # "pass" THEN Reject(r) ELSE pc' = "codegen" /\ out' = out
    /\ UNCHANGED <<h, bi, stage, groups, all, ei, memo>>

\* compile() -> get_code(): _check_arrays_for_properties per stepper method
Codegen ==
    /\ pc = "codegen"
    /\ LET n == Len(case.steppers)
           r == IF Variant = "laststepper" /\ n > 1
                THEN M_StepperProps([case EXCEPT
                         !.steppers = <<case.steppers[n]>>])
                ELSE IF Variant = "stage12" THEN M_StepperProps(Cut(case))
                ELSE M_StepperProps(case)
       IN out' = IF r.k # "pass" THEN r ELSE Acc
    /\ pc' = "done"
    /\ UNCHANGED <<h, bi, stage, groups, all, ei, memo>>

\* the next problem of the history, in the same process
NextBuild ==
    /\ pc = "done" /\ bi < Len(h.builds)
    /\ bi' = bi + 1 /\ pc' = "start"
    /\ UNCHANGED <<h, stage, groups, all, ei, out, memo>>

Next == Start \/ GroupEquations \/ Flatten \/ CheckDest \/ CheckSources
        \/ CheckProps \/ EvalDone \/ Helpers \/ Codegen \/ NextBuild
Spec == Init /\ [][Next]_vars

-----------------------------------------------------------------------------
Done == pc = "done"
Functional == (Done /\ Variant = NV) => out = M_Outcome(SymTab, case, NV)
\* the statement, nothing masked (every build of a history on its own)
Contract == Done => Failed(SymTab, case, out) = {}
\* every departure from the statement is a finding of K
ContractOrKnown ==
    Done => \/ Failed(SymTab, case, out) = {}
            \/ KnownOf(SymTab, case, out, K) # {}
=============================================================================
