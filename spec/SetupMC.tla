------------------------------ MODULE SetupMC ------------------------------
(***************************************************************************)
(* Design model for C20.  TLC runs the set-up chain's checks (mechanism    *)
(* layer of Setup.tla, as a small state machine shaped like the code) over *)
(* EVERY case of a small universe of problem definitions and compares the  *)
(* result with the contract (property layer).                              *)
(*                                                                         *)
(* Universe.  Three particle arrays pa_d, pa_s1, pa_s2, each with the      *)
(* properties Base and the constant cnst.  Two probe equations:            *)
(*   ProbeA  dest pa_d, sources one of SrcOpts, explicit names and method  *)
(*           placement one of Shapes, precomputed symbols one of SymSets   *)
(*   ProbeB  initialize(d_idx, d_m) on pa_d, no sources (a second equation *)
(*           so that "names the equation" means something)                 *)
(* wrapped (flat list / groups / sub-groups / stages) and built as one of  *)
(* Pairs = <<structure, api>> ("compiler": AccelerationEval + SPHCompiler  *)
(* without integrator; "stepper": the same with an integrator whose        *)
(* stepper ProbeStep for pa_d has stage1(d_idx, d_x, d_au, dt);            *)
(* "evaluator": SPHEvaluator), with one fault:                             *)
(*   none | one name removed from one array | the dest, the last source or *)
(*   the stepper's array misspelt (pa_zz)  [Combo: a removal AND a         *)
(*   misspelling]                                                          *)
(* The removed name ranges (Wide) over every name some role of the case    *)
(* needs plus two that nothing needs (y when unused, tag), on every array; *)
(* or (not Wide) per array over what that array is asked for, the explicit *)
(* names of the case and tag.                                              *)
(*                                                                         *)
(* Mechanism (pc):  start -> group (group_equations) -> flatten            *)
(* (all_equations, one level of sub-groups) -> dest / sources / props per  *)
(* equation (check_equation_array_properties) -> next stage's evaluator    *)
(* ... -> helpers (SPHCompiler: stepper array names) -> codegen (stepper   *)
(* properties) -> done.  Variant selects what the property check reads     *)
(* ("explicit": method signatures only, the code as it is).                *)
(*                                                                         *)
(* Invariants: Functional (the step-wise machine computes M_Outcome, the   *)
(* functional model used for trace validation); Contract (the statement,   *)
(* no masking): expected to FAIL for Variant = "explicit" - TLC finds the  *)
(* discrepancy by itself - and to hold for "closure"; ContractOrKnown:     *)
(* every failure is explained by a finding of K.                           *)
(***************************************************************************)
EXTENDS Setup, Json

CONSTANTS SymSets, Shapes, SrcOpts, Pairs, Combo, Wide,
          Variant,      \* mechanism that is run
          K,            \* ids of findings that may explain a failure
          Emit          \* TRUE: print every case (replayed into the code)

\* named value sets (a .cfg holds no records / nested sets)
SymsQ == {{}, {"VIJ"}, {"RHOIJ1"}, {"DWIJ"}, {"WJ"}, {"VIJ", "EPS"}}
SymsC == {{}, {"VIJ"}, {"WIJ"}}
SymsT == {{}} \cup {{y} : y \in DOMAIN SymTab}
         \cup {{"VIJ", "EPS"}, {"WI", "WJ", "RHOIJ"}}
Shape(d, s, m) == [d |-> d, s |-> s, meth |-> m]
ShapesQ == {Shape({}, {}, "loop"), Shape({"foo"}, {}, "initialize"),
            Shape({"foo", "cnst"}, {"bar"}, "loop")}
ShapesT == ShapesQ \cup {Shape({"foo"}, {"bar"}, "post_loop"),
                         Shape({"h"}, {"u"}, "loop")}
SrcQ == {<<"pa_s1", "pa_s2">>, <<"pa_d", "pa_s1">>, <<>>}
SrcT == SrcQ \cup {<<"pa_s1">>}
\* <<structure, api>> (SPHEvaluator takes no MultiStageEquations)
PairsT == ({"flat", "group", "nested", "multistage"}
           \X {"compiler", "stepper", "evaluator"})
          \ {<<"multistage", "evaluator">>}
PairsQ == {<<"flat", "compiler">>, <<"group", "stepper">>,
           <<"nested", "evaluator">>, <<"multistage", "stepper">>,
           <<"nested", "compiler">>}
PairsC == PairsQ \cup {<<"flat", "evaluator">>}
KAll == KnownIds
KNone == {}

Base == {"x", "y", "z", "u", "v", "w", "h", "rho", "m", "foo", "bar", "au",
         "tag", "pid", "gid"}
Consts == {"cnst"}
ArrNames == <<"pa_d", "pa_s1", "pa_s2">>
Wrong == "pa_zz"

VARIABLES case, pc, stage, groups, all, ei, out
vars == <<case, pc, stage, groups, all, ei, out>>

-----------------------------------------------------------------------------
(* the universe *)
ProbeA(sh, sy, so) == [name |-> "ProbeA", dest |-> "pa_d", sources |-> so,
                       d |-> sh.d, s |-> sh.s, syms |-> sy,
                       meth |-> sh.meth]
ProbeB == [name |-> "ProbeB", dest |-> "pa_d", sources |-> <<>>,
           d |-> {"m"}, s |-> {}, syms |-> {}, meth |-> "initialize"]
ProbeStep == [array |-> "pa_d", name |-> "ProbeStep", d |-> {"x", "au"}]
\* ProbeB first in the flat and nested structures, second otherwise
EqOrder(st, a) == IF st \in {"flat", "nested"} THEN <<ProbeB, a>>
                  ELSE <<a, ProbeB>>
FullArrays == [i \in 1 .. 3 |-> [name |-> ArrNames[i],
                                 props |-> Base \cup Consts,
                                 consts |-> Consts]]
Mk(sh, sy, so, st, ap) ==
    [api |-> IF ap = "evaluator" THEN "evaluator" ELSE "compiler",
     structure |-> st, arrays |-> FullArrays,
     eqs |-> EqOrder(st, ProbeA(sh, sy, so)),
     steppers |-> IF ap = "stepper" THEN <<ProbeStep>> ELSE <<>>]
\* names worth removing: all that some role needs, and two nobody needs
Relevant(c) ==
    UNION {Required(SymTab, c.eqs[i], r, TRUE) :
           i \in DOMAIN c.eqs, r \in {"dest", "source"}}
    \cup UNION {c.steppers[i].d : i \in DOMAIN c.steppers}
    \cup {"y", "tag"}
Remove(c, a, n) ==
    [c EXCEPT !.arrays = [i \in DOMAIN @ |->
        IF @[i].name = a THEN [@[i] EXCEPT !.props = @ \ {n},
                                           !.consts = @ \ {n}]
        ELSE @[i]]]
IdxA(c) == CHOOSE i \in DOMAIN c.eqs : c.eqs[i].name = "ProbeA"
Misspell(c, what) ==
    LET i == IdxA(c)
        n == Len(c.eqs[i].sources)
    IN CASE what = "dest" -> [c EXCEPT !.eqs[i].dest = Wrong]
         [] what = "source" -> [c EXCEPT !.eqs[i].sources[n] = Wrong]
         [] what = "stepper" -> [c EXCEPT !.steppers[1].array = Wrong]
Misspellings(c) ==
    {"dest"} \cup (IF Len(c.eqs[IdxA(c)].sources) > 0 THEN {"source"} ELSE {})
             \cup (IF Len(c.steppers) > 0 THEN {"stepper"} ELSE {})
\* what array a is asked for by the equations and steppers applied to it
NeededBy(c, a) ==
    UNION {Required(SymTab, c.eqs[i], "dest", TRUE) :
           i \in {j \in DOMAIN c.eqs : c.eqs[j].dest = a}}
    \cup UNION {Required(SymTab, c.eqs[i], "source", TRUE) :
                i \in {j \in DOMAIN c.eqs : a \in Range(c.eqs[j].sources)}}
    \cup UNION {c.steppers[i].d :
                i \in {j \in DOMAIN c.steppers : c.steppers[j].array = a}}
ExplicitNames(c) == UNION {c.eqs[i].d \cup c.eqs[i].s : i \in DOMAIN c.eqs}
\* Wide: every relevant name from every array; otherwise from each array
\* the names it is asked for, the explicit names of the other role, and tag
Removals(c) ==
    IF Wide THEN {<<ArrNames[i], n>> : i \in 1 .. 3, n \in Relevant(c)}
    ELSE UNION {{<<ArrNames[i], n>> :
                 n \in NeededBy(c, ArrNames[i]) \cup ExplicitNames(c)
                       \cup {"tag"}} : i \in 1 .. 3}
Faulty(c) ==
    {c} \cup {Remove(c, r[1], r[2]) : r \in Removals(c)}
        \cup {Misspell(c, w) : w \in Misspellings(c)}
        \cup (IF Combo
              THEN {Misspell(Remove(c, r[1], r[2]), w) :
                    r \in Removals(c), w \in Misspellings(c)}
              ELSE {})

Init ==
    /\ \E sh \in Shapes, sy \in SymSets, so \in SrcOpts, pr \in Pairs :
          case \in Faulty(Mk(sh, sy, so, pr[1], pr[2]))
    /\ pc = "start" /\ stage = 0 /\ groups = <<>> /\ all = <<>> /\ ei = 0
    /\ out = NoRej

-----------------------------------------------------------------------------
(* the mechanism, step by step *)
Start ==
    /\ pc = "start"
    /\ Emit => PrintT(<<"CASE", ToJson(case)>>)
    /\ pc' = "group" /\ stage' = 1
    /\ UNCHANGED <<case, groups, all, ei, out>>

\* AccelerationEval.__init__ of the evaluator of this stage
GroupEquations ==
    /\ pc = "group"
    /\ groups' = M_Group(Stages(case)[stage])
    /\ pc' = "flatten"
    /\ UNCHANGED <<case, stage, all, ei, out>>

Flatten ==
    /\ pc = "flatten"
    /\ all' = M_Flatten(groups)
    /\ ei' = 1
    /\ pc' = "dest"
    /\ UNCHANGED <<case, stage, groups, out>>

Cur == case.eqs[all[ei].i]
Reject(r) == out' = r /\ pc' = "done"

CheckDest ==
    /\ pc = "dest" /\ ei <= Len(all)
    /\ LET r == M_CheckDest(case, Cur)
       IN IF r.k # "pass" THEN Reject(r) ELSE pc' = "sources" /\ out' = out
    /\ UNCHANGED <<case, stage, groups, all, ei>>

CheckSources ==
    /\ pc = "sources"
    /\ LET r == M_CheckSources(case, Cur)
       IN IF r.k # "pass" THEN Reject(r) ELSE pc' = "props" /\ out' = out
    /\ UNCHANGED <<case, stage, groups, all, ei>>

CheckProps ==
    /\ pc = "props"
    /\ LET r == M_CheckProps(SymTab, case, Cur, Variant)
       IN IF r.k # "pass" THEN Reject(r) /\ ei' = ei
          ELSE pc' = "dest" /\ ei' = ei + 1 /\ out' = out
    /\ UNCHANGED <<case, stage, groups, all>>

\* all equations of this evaluator passed: the next stage's, or the compiler
EvalDone ==
    /\ pc = "dest" /\ ei > Len(all)
    /\ IF stage < Len(Stages(case))
       THEN stage' = stage + 1 /\ pc' = "group"
       ELSE stage' = stage /\ pc' = "helpers"
    /\ UNCHANGED <<case, groups, all, ei, out>>

\* SPHCompiler.__init__ -> IntegratorCythonHelper._check_integrator_steppers
Helpers ==
    /\ pc = "helpers"
    /\ LET r == M_StepperNames(case)
       IN IF r.k # "pass" THEN Reject(r) ELSE pc' = "codegen" /\ out' = out
    /\ UNCHANGED <<case, stage, groups, all, ei>>

\* compile() -> get_code(): _check_arrays_for_properties per stepper method
Codegen ==
    /\ pc = "codegen"
    /\ LET r == M_StepperProps(case)
       IN out' = IF r.k # "pass" THEN r ELSE Acc
    /\ pc' = "done"
    /\ UNCHANGED <<case, stage, groups, all, ei>>

Next == Start \/ GroupEquations \/ Flatten \/ CheckDest \/ CheckSources
        \/ CheckProps \/ EvalDone \/ Helpers \/ Codegen
Spec == Init /\ [][Next]_vars

-----------------------------------------------------------------------------
Done == pc = "done"
Functional == Done => out = M_Outcome(SymTab, case, Variant)
\* the statement, nothing masked
Contract == Done => Failed(SymTab, case, out) = {}
\* every departure from the statement is a finding of K
ContractOrKnown ==
    Done => \/ Failed(SymTab, case, out) = {}
            \/ KnownOf(SymTab, case, out, K) # {}
=============================================================================
