------------------------------ MODULE SetupMC ------------------------------
(***************************************************************************)
(* Design model for C20.  TLC runs the set-up chain's checks (mechanism    *)
(* layer of Setup.tla, as a small state machine shaped like the code) over *)
(* EVERY case of a small universe of problem definitions and compares the  *)
(* result with the contract (property layer).                              *)
(*                                                                         *)
(* Universe.  Three particle arrays pa_d, pa_s1, pa_s2, each with the      *)
(* properties Base and the constant cnst.  Two probe equations:            *)
(*   ProbeA  dest pa_d, sources one of SrcOpts, explicit names and method  *)
(*           placement one of Shapes, precomputed symbols one of SymSets   *)
(*   ProbeB  initialize(d_idx, d_m) on pa_d, no sources (a second equation *)
(*           so that "names the equation" means something)                 *)
(* wrapped (flat list / groups / sub-groups / stages) and built as one of  *)
(* Pairs = <<structure, api>> ("compiler": AccelerationEval + SPHCompiler  *)
(* without integrator; "stepper": the same with an integrator whose        *)
(* stepper ProbeStep for pa_d has stage1(d_idx, d_x, d_au, dt);            *)
(* "evaluator": SPHEvaluator); part Dup: SEVERAL INSTANCES of ProbeA on    *)
(* pa_d with different sources (DupOpts), structure "iterated" = sub-      *)
(* groups of an iterated group; part Multi: an integrator over 2-3 arrays  *)
(* with a stepper class each, given in the orders StepOrders.  One fault:  *)
(*   none | one name removed from one array | the dest or the last source  *)
(*   of one instance of ProbeA, or one stepper's array, misspelt (pa_zz)   *)
(*   [Combo: a removal AND a misspelling]                                  *)
(* The removed name ranges (Wide) over every name some role of the case    *)
(* needs plus two that nothing needs (y when unused, tag), on every array; *)
(* or (not Wide) per array over what that array is asked for, the explicit *)
(* names of the case and tag.                                              *)
(*                                                                         *)
(* Mechanism (pc):  start -> group (group_equations) -> flatten            *)
(* (all_equations, one level of sub-groups) -> dest / sources / props per  *)
(* equation (check_equation_array_properties) -> next stage's evaluator    *)
(* ... -> helpers (SPHCompiler: stepper array names) -> codegen (stepper   *)
(* properties) -> done.  Variant selects what the property check reads     *)
(* ("explicit": method signatures only, the code as it is).                *)
(*                                                                         *)
(* Invariants: Functional (the step-wise machine computes M_Outcome, the   *)
(* functional model used for trace validation); Contract (the statement,   *)
(* no masking): holds for Variant = "closure" (the code since the repair   *)
(* of C20-symbol-requirements-unchecked) and is expected to FAIL - TLC     *)
(* finds a violating case by itself - for "explicit" (the code before the  *)
(* repair), "none", "dedup" and "laststepper" (seeded defects): the        *)
(* universe is sensitive to each; ContractOrKnown: every failure is        *)
(* explained by a finding of K.                                            *)
(***************************************************************************)
EXTENDS Setup, Json

CONSTANTS SymSets, Shapes, SrcOpts, Pairs, Combo, Wide,
          DupShapes, DupSyms, DupOpts, DupPairs,    \* part Dup
          StepStructs, StepOrders,                  \* part Multi
          Variant,      \* mechanism that is run
          K,            \* ids of findings that may explain a failure
          Emit          \* TRUE: print every case (replayed into the code)

\* named value sets (a .cfg holds no records / nested sets)
SymsQ == {{}, {"DWIJ"}, {"WJ"}, {"VIJ", "EPS"}}
SymsC == {{}, {"VIJ"}, {"WIJ"}}
SymsT == {{}} \cup {{y} : y \in DOMAIN SymTab}
         \cup {{"VIJ", "EPS"}, {"WI", "WJ", "RHOIJ"}}
Shape(d, s, m) == [d |-> d, s |-> s, meth |-> m]
ShapesQ == {Shape({}, {}, "loop"), Shape({"foo"}, {}, "initialize"),
            Shape({"foo", "cnst"}, {"bar"}, "loop")}
ShapesT == ShapesQ \cup {Shape({"foo"}, {"bar"}, "post_loop"),
                         Shape({"h"}, {"u"}, "loop")}
SrcQ == {<<"pa_s1", "pa_s2">>, <<"pa_d", "pa_s1">>, <<>>}
SrcT == SrcQ \cup {<<"pa_s1">>}
\* <<structure, api>> (SPHEvaluator takes no MultiStageEquations)
PairsT == ({"flat", "group", "nested", "multistage"}
           \X {"compiler", "stepper", "evaluator"})
          \ {<<"multistage", "evaluator">>}
PairsQ == {<<"flat", "compiler">>, <<"group", "stepper">>,
           <<"nested", "evaluator">>, <<"multistage", "stepper">>,
           <<"nested", "compiler">>}
PairsC == PairsQ \cup {<<"flat", "evaluator">>}
\* part Dup: the sources of the instances of ProbeA
DupShapesQ == {Shape({}, {}, "loop"), Shape({"foo", "cnst"}, {"bar"}, "loop")}
DupSymsQ == {{}, {"VIJ"}}
DupSymsT == {{}, {"VIJ"}, {"WJ"}, {"RHOIJ1"}}
DupOptsQ == {<<<<"pa_s1">>, <<"pa_s2">>>>, <<<<"pa_d", "pa_s2">>, <<"pa_s1">>>>}
DupOptsT == DupOptsQ \cup {<<<<"pa_s1">>, <<"pa_s1", "pa_s2">>>>,
                           <<<<"pa_s1">>, <<"pa_d">>, <<"pa_s2">>>>}
DupPairsQ == {<<"flat", "compiler">>, <<"group", "compiler">>,
              <<"iterated", "compiler">>, <<"nested", "evaluator">>}
DupPairsT == DupPairsQ \cup {<<"multistage", "stepper">>,
                             <<"iterated", "evaluator">>,
                             <<"flat", "stepper">>}
\* part Multi: the order in which the arrays are given to the integrator
\* (the code checks in that order and generates in sorted order)
StepStructsQ == {"flat"}
StepStructsT == {"flat", "group", "multistage"}
StepOrdersQ == {<<"pa_d", "pa_s1", "pa_s2">>, <<"pa_s2", "pa_d", "pa_s1">>,
                <<"pa_s1", "pa_d">>}
StepOrdersT == {<<"pa_d", "pa_s1", "pa_s2">>, <<"pa_d", "pa_s2", "pa_s1">>,
                <<"pa_s1", "pa_d", "pa_s2">>, <<"pa_s1", "pa_s2", "pa_d">>,
                <<"pa_s2", "pa_d", "pa_s1">>, <<"pa_s2", "pa_s1", "pa_d">>,
                <<"pa_s1", "pa_d">>, <<"pa_d", "pa_s2">>}
NoDup == {}
KAll == KnownIds
KNone == {}

Base == {"x", "y", "z", "u", "v", "w", "h", "rho", "m", "foo", "bar", "au",
         "tag", "pid", "gid"}
Consts == {"cnst"}
ArrNames == <<"pa_d", "pa_s1", "pa_s2">>
Wrong == "pa_zz"

VARIABLES case, pc, stage, groups, all, ei, out
vars == <<case, pc, stage, groups, all, ei, out>>

-----------------------------------------------------------------------------
(* the universe *)
ProbeA(sh, sy, so) == [name |-> "ProbeA", dest |-> "pa_d", sources |-> so,
                       d |-> sh.d, s |-> sh.s, syms |-> sy,
                       meth |-> sh.meth]
ProbeB == [name |-> "ProbeB", dest |-> "pa_d", sources |-> <<>>,
           d |-> {"m"}, s |-> {}, syms |-> {}, meth |-> "initialize"]
\* one stepper class per array, each with a name of its own
StepFor(a) ==
    CASE a = "pa_d" -> [array |-> a, name |-> "ProbeStep", d |-> {"x", "au"}]
      [] a = "pa_s1" -> [array |-> a, name |-> "ProbeStepS", d |-> {"u", "bar"}]
      [] a = "pa_s2" -> [array |-> a, name |-> "ProbeStepT", d |-> {"rho", "m"}]
\* sos: the sources of the instances of ProbeA (one instance each, all on
\* pa_d).  ProbeB comes first in the flat and nested structures, after the
\* first instance otherwise.
EqOrder(st, as) == IF st \in {"flat", "nested"} THEN <<ProbeB>> \o as
                   ELSE <<Head(as), ProbeB>> \o Tail(as)
FullArrays == [i \in 1 .. 3 |-> [name |-> ArrNames[i],
                                 props |-> Base \cup Consts,
                                 consts |-> Consts]]
\* ord: the arrays given to the integrator, in the order they are given
Mk(sh, sy, sos, st, ap, ord) ==
    [api |-> IF ap = "evaluator" THEN "evaluator" ELSE "compiler",
     structure |-> st, arrays |-> FullArrays,
     eqs |-> EqOrder(st, [j \in DOMAIN sos |-> ProbeA(sh, sy, sos[j])]),
     steppers |-> IF ap = "stepper" THEN [j \in DOMAIN ord |-> StepFor(ord[j])]
                  ELSE <<>>]
\* names worth removing: all that some role needs, and two nobody needs
Relevant(c) ==
    UNION {Required(SymTab, c.eqs[i], r, TRUE) :
           i \in DOMAIN c.eqs, r \in {"dest", "source"}}
    \cup UNION {c.steppers[i].d : i \in DOMAIN c.steppers}
    \cup {"y", "tag"}
Remove(c, a, n) ==
    [c EXCEPT !.arrays = [i \in DOMAIN @ |->
        IF @[i].name = a THEN [@[i] EXCEPT !.props = @ \ {n},
                                           !.consts = @ \ {n}]
        ELSE @[i]]]
\* the dest or the last source of ANY instance of ProbeA, the array of ANY
\* stepper
AIdx(c) == {i \in DOMAIN c.eqs : c.eqs[i].name = "ProbeA"}
Misspell(c, w) ==
    LET i == w[2]
    IN CASE w[1] = "dest" -> [c EXCEPT !.eqs[i].dest = Wrong]
         [] w[1] = "source" ->
                [c EXCEPT !.eqs[i].sources[Len(c.eqs[i].sources)] = Wrong]
         [] w[1] = "stepper" -> [c EXCEPT !.steppers[i].array = Wrong]
Misspellings(c) ==
    {<<"dest", i>> : i \in AIdx(c)}
    \cup {<<"source", i>> : i \in {j \in AIdx(c) : Len(c.eqs[j].sources) > 0}}
    \cup {<<"stepper", i>> : i \in DOMAIN c.steppers}
\* what array a is asked for by the equations and steppers applied to it
NeededBy(c, a) ==
    UNION {Required(SymTab, c.eqs[i], "dest", TRUE) :
           i \in {j \in DOMAIN c.eqs : c.eqs[j].dest = a}}
    \cup UNION {Required(SymTab, c.eqs[i], "source", TRUE) :
                i \in {j \in DOMAIN c.eqs : a \in Range(c.eqs[j].sources)}}
    \cup UNION {c.steppers[i].d :
                i \in {j \in DOMAIN c.steppers : c.steppers[j].array = a}}
ExplicitNames(c) == UNION {c.eqs[i].d \cup c.eqs[i].s : i \in DOMAIN c.eqs}
\* Wide: every relevant name from every array; otherwise from each array
\* the names it is asked for, the explicit names of the other role, and tag
Removals(c) ==
    IF Wide THEN {<<ArrNames[i], n>> : i \in 1 .. 3, n \in Relevant(c)}
    ELSE UNION {{<<ArrNames[i], n>> :
                 n \in NeededBy(c, ArrNames[i]) \cup ExplicitNames(c)
                       \cup {"tag"}} : i \in 1 .. 3}
Faulty(c) ==
    {c} \cup {Remove(c, r[1], r[2]) : r \in Removals(c)}
        \cup {Misspell(c, w) : w \in Misspellings(c)}
        \cup (IF Combo
              THEN {Misspell(Remove(c, r[1], r[2]), w) :
                    r \in Removals(c), w \in Misspellings(c)}
              ELSE {})

\* Three parts.  Core: one instance of ProbeA, at most one stepper.  Dup:
\* SEVERAL INSTANCES of ProbeA on pa_d with different sources (a removal
\* from, or a misspelling of, a source of only the earlier / only the later
\* instance).  Multi: an integrator over SEVERAL ARRAYS with a stepper class
\* each, given in every order of StepOrders (exactly one array - first,
\* middle or last given - lacks a name its stepper needs, or is misspelt).
OneStepper == <<"pa_d">>
Init ==
    /\ \/ \E sh \in Shapes, sy \in SymSets, so \in SrcOpts, pr \in Pairs :
             case \in Faulty(Mk(sh, sy, <<so>>, pr[1], pr[2], OneStepper))
       \/ \E sh \in DupShapes, sy \in DupSyms, sos \in DupOpts,
             pr \in DupPairs :
             case \in Faulty(Mk(sh, sy, sos, pr[1], pr[2], OneStepper))
       \/ \E sy \in DupSyms, st \in StepStructs, ord \in StepOrders :
             case \in Faulty(Mk(Shape({"foo"}, {}, "initialize"), sy,
                                <<<<"pa_s1">>>>, st, "stepper", ord))
    /\ pc = "start" /\ stage = 0 /\ groups = <<>> /\ all = <<>> /\ ei = 0
    /\ out = NoRej

-----------------------------------------------------------------------------
(* the mechanism, step by step *)
Start ==
    /\ pc = "start"
    /\ Emit => PrintT(<<"CASE", ToJson(case)>>)
    /\ pc' = "group" /\ stage' = 1
    /\ UNCHANGED <<case, groups, all, ei, out>>

\* AccelerationEval.__init__ of the evaluator of this stage
GroupEquations ==
    /\ pc = "group"
    /\ groups' = M_Group(Stages(case)[stage])
    /\ pc' = "flatten"
    /\ UNCHANGED <<case, stage, all, ei, out>>

Flatten ==
    /\ pc = "flatten"
    /\ all' = M_Flatten(groups)
    /\ ei' = 1
    /\ pc' = "dest"
    /\ UNCHANGED <<case, stage, groups, out>>

Cur == case.eqs[all[ei].i]
Reject(r) == out' = r /\ pc' = "done"

\* Seeded defects (Variant; they measure that the universe is sensitive to
\* them, see Contract): "dedup" - an equation whose class and dest were
\* seen earlier in this evaluator is not checked; "laststepper" - only the
\* stepper given last has its properties checked.  Otherwise the repaired
\* mechanism.
NV == IF Variant \in {"explicit", "none"} THEN Variant ELSE "closure"
SeenBefore ==
    \E l \in 1 .. (ei - 1) :
        /\ case.eqs[all[l].i].name = Cur.name
        /\ case.eqs[all[l].i].dest = Cur.dest

CheckDest ==
    /\ pc = "dest" /\ ei <= Len(all)
    /\ IF Variant = "dedup" /\ SeenBefore
       THEN pc' = "dest" /\ ei' = ei + 1 /\ out' = out
       ELSE /\ ei' = ei
            /\ LET r == M_CheckDest(case, Cur)
               IN IF r.k # "pass" THEN Reject(r)
                  ELSE pc' = "sources" /\ out' = out
    /\ UNCHANGED <<case, stage, groups, all>>

CheckSources ==
    /\ pc = "sources"
    /\ LET r == M_CheckSources(case, Cur)
       IN IF r.k # "pass" THEN Reject(r) ELSE pc' = "props" /\ out' = out
    /\ UNCHANGED <<case, stage, groups, all, ei>>

CheckProps ==
    /\ pc = "props"
    /\ LET r == M_CheckProps(SymTab, case, Cur, NV)
       IN IF r.k # "pass" THEN Reject(r) /\ ei' = ei
          ELSE pc' = "dest" /\ ei' = ei + 1 /\ out' = out
    /\ UNCHANGED <<case, stage, groups, all>>

\* all equations of this evaluator passed: the next stage's, or the compiler
EvalDone ==
    /\ pc = "dest" /\ ei > Len(all)
    /\ IF stage < Len(Stages(case))
       THEN stage' = stage + 1 /\ pc' = "group"
       ELSE stage' = stage /\ pc' = "helpers"
    /\ UNCHANGED <<case, groups, all, ei, out>>

\* SPHCompiler.__init__ -> IntegratorCythonHelper._check_integrator_steppers
Helpers ==
    /\ pc = "helpers"
    /\ LET r == M_StepperNames(case)
       IN IF r.k # "pass" THEN Reject(r) ELSE pc' = "codegen" /\ out' = out
    /\ UNCHANGED <<case, stage, groups, all, ei>>

\* compile() -> get_code(): _check_arrays_for_properties per stepper method
Codegen ==
    /\ pc = "codegen"
    /\ LET n == Len(case.steppers)
           r == IF Variant = "laststepper" /\ n > 1
                THEN M_StepperProps([case EXCEPT
                         !.steppers = <<case.steppers[n]>>])
                ELSE M_StepperProps(case)
       IN out' = IF r.k # "pass" THEN r ELSE Acc
    /\ pc' = "done"
    /\ UNCHANGED <<case, stage, groups, all, ei>>

Next == Start \/ GroupEquations \/ Flatten \/ CheckDest \/ CheckSources
        \/ CheckProps \/ EvalDone \/ Helpers \/ Codegen
Spec == Init /\ [][Next]_vars

-----------------------------------------------------------------------------
Done == pc = "done"
Functional == (Done /\ Variant = NV) => out = M_Outcome(SymTab, case, NV)
\* the statement, nothing masked
Contract == Done => Failed(SymTab, case, out) = {}
\* every departure from the statement is a finding of K
ContractOrKnown ==
    Done => \/ Failed(SymTab, case, out) = {}
            \/ KnownOf(SymTab, case, out, K) # {}
=============================================================================
