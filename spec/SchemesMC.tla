----------------------------- MODULE SchemesMC -----------------------------
(***************************************************************************)
(* Design model for C12: the mechanism the property is about, as a small   *)
(* state machine.  A scheme has options; get_equations() adds an equation  *)
(* (or configure_solver() picks another stepper) when an option is on,     *)
(* and a DIFFERENT method, setup_properties(), must have declared the      *)
(* properties those equations read, on the right arrays, under the same    *)
(* condition.  The model runs the documented protocol                      *)
(*     construct -> configure* -> configure_solver -> setup_properties     *)
(*               -> get_equations -> build (the code's fail-fast check)    *)
(* for EVERY option assignment x with/without a solid array x clean x      *)
(* what the user's plain arrays already carry, and evaluates the property  *)
(* layer of Schemes.tla (Witnesses / P_Complete) on the resulting          *)
(* abstraction.                                                            *)
(*                                                                         *)
(* Toy schemes (constant Toy), three options o1, o2, o3:                   *)
(*   o1  adds E1(dest fluid, sources fluid) reading p1 and WIJ; the        *)
(*       property is declared `if o1:` (like WCSPH's delta_sph)            *)
(*   o2  adds E2(dest fluid, sources all) reading d_p2, s_p2: both roles   *)
(*   o3  switches the stepper to one that integrates q3, and, with a       *)
(*       solid array, adds E3(dest fluid, sources solid) reading d_V, s_V  *)
(*       and VIJ (like SolidWallNoSlipBC under nu > 0)                     *)
(*   "complete"    declares everything the equations read                  *)
(*   "incomplete"  forgets p2 (an option nobody tried)                     *)
(*   "rolemix"     declares V for the solid arrays only - the shape of     *)
(*                 GTVFScheme.setup_properties                             *)
(*   "stale"       complete, but lets configure run after                  *)
(*                 setup_properties (the undocumented order)               *)
(* Invariants: Complete (must hold for "complete"; TLC must find the       *)
(* violating combinations for the others), Characterised (exactly which    *)
(* combinations are incomplete, including the ones that clean = FALSE      *)
(* hides because the user's array happened to carry the property) and      *)
(* FailFast (the build step rejects iff an explicit name is missing).      *)
(***************************************************************************)
EXTENDS Schemes, TLC

CONSTANT Toy

Options == {"o1", "o2", "o3"}
Base == {"x", "y", "z", "u", "v", "w", "h", "m", "rho"}
Extras == {"p1", "p2", "q3", "V"}       \* what a user's array may carry

VARIABLES pc, opt, solids, clean, user, arrays, eqs, steppers, outcome
vars == <<pc, opt, solids, clean, user, arrays, eqs, steppers, outcome>>

SeqOf(S) ==                  \* some enumeration of a finite set of strings
    LET RECURSIVE F(_)
        F(T) == IF T = {} THEN <<>>
                ELSE LET x == CHOOSE x \in T : TRUE IN <<x>> \o F(T \ {x})
    IN F(S)

ArrayNames == IF solids THEN <<"fluid", "solid">> ELSE <<"fluid">>

\* ---- the scheme ----------------------------------------------------------
\* setup_properties: the names it declares for an array of a role
Declared(role) ==
    {"au", "av", "aw"}
    \cup (IF opt["o1"] THEN {"p1"} ELSE {})
    \cup (IF Toy # "incomplete" THEN {"p2"} ELSE {})           \* always
    \cup (IF role = "fluid" /\ opt["o3"] THEN {"q3"} ELSE {})
    \cup (IF role = "solid" \/ Toy # "rolemix" THEN {"V"} ELSE {})

E0 == [cls |-> "E0", dest |-> "fluid", sources |-> ArrayNames,
       d |-> <<"au", "rho">>, s |-> <<"m", "rho">>, syms |-> <<"DWIJ">>,
       stage |-> 0, gd |-> <<>>, gs |-> <<>>]
E1 == [cls |-> "E1", dest |-> "fluid", sources |-> <<"fluid">>,
       d |-> <<"p1">>, s |-> <<"m">>, syms |-> <<"WIJ", "dt">>,
       stage |-> 0, gd |-> <<>>, gs |-> <<>>]
E2 == [cls |-> "E2", dest |-> "fluid", sources |-> ArrayNames,
       d |-> <<"p2">>, s |-> <<"p2">>, syms |-> <<>>,
       stage |-> 0, gd |-> <<>>, gs |-> <<>>]
E3 == [cls |-> "E3", dest |-> "fluid", sources |-> <<"solid">>,
       d |-> <<"V", "au">>, s |-> <<"V">>, syms |-> <<"VIJ", "R2IJ">>,
       stage |-> 1, gd |-> <<>>, gs |-> <<>>]

Equations ==
    <<E0>> \o (IF opt["o1"] THEN <<E1>> ELSE <<>>)
           \o (IF opt["o2"] THEN <<E2>> ELSE <<>>)
           \o (IF opt["o3"] /\ solids THEN <<E3>> ELSE <<>>)

Stepper ==
    [array |-> "fluid",
     cls |-> IF opt["o3"] THEN "StepQ" ELSE "Step",
     methods |-> <<[m |-> "initialize", names |-> <<"x", "u">>],
                   [m |-> "stage1",
                    names |-> IF opt["o3"] THEN <<"x", "u", "au", "q3">>
                              ELSE <<"x", "u", "au">>]>>]

\* ---- the protocol ----------------------------------------------------------
Plain(n) == [name |-> n, props |-> SeqOf(Base \cup user)]

Init ==
    /\ pc = "new"
    /\ opt = [o \in Options |-> FALSE]
    /\ solids \in BOOLEAN /\ clean \in BOOLEAN
    /\ user \in {{}, Extras}
    /\ arrays = [i \in 1 .. Len(ArrayNames) |-> Plain(ArrayNames[i])]
    /\ eqs = <<>> /\ steppers = <<>> /\ outcome = "none"

Configure ==
    /\ pc \in {"new", "configured"} \/ (Toy = "stale" /\ pc = "props")
    /\ \E o \in Options, b \in BOOLEAN : opt' = [opt EXCEPT ![o] = b]
    /\ pc' = IF pc = "props" THEN "props" ELSE "configured"
    /\ UNCHANGED <<solids, clean, user, arrays, eqs, steppers, outcome>>

ConfigureSolver ==
    /\ pc \in {"new", "configured"}
    /\ steppers' = <<Stepper>>
    /\ pc' = "solver"
    /\ UNCHANGED <<opt, solids, clean, user, arrays, eqs, outcome>>

\* _ensure_properties: remove what is not desired (clean), add the rest
SetupProperties ==
    /\ pc = "solver"
    /\ arrays' = [i \in 1 .. Len(arrays) |->
          LET want == Base \cup Declared(arrays[i].name)
              have == Range(arrays[i].props)
          IN [name |-> arrays[i].name,
              props |-> SeqOf(IF clean THEN want ELSE have \cup want)]]
    /\ pc' = "props"
    /\ UNCHANGED <<opt, solids, clean, user, eqs, steppers, outcome>>

GetEquations ==
    /\ pc = "props"
    /\ eqs' = Equations
    /\ pc' = "eqs"
    /\ UNCHANGED <<opt, solids, clean, user, arrays, steppers, outcome>>

Case == [setup |-> [ok |-> TRUE], arrays |-> arrays, eqs |-> eqs,
         steppers |-> steppers]

Build ==
    /\ pc = "eqs"
    /\ outcome' = FailFastModel(Case).kind
    /\ pc' = "built"
    /\ UNCHANGED <<opt, solids, clean, user, arrays, eqs, steppers>>

Next == Configure \/ ConfigureSolver \/ SetupProperties \/ GetEquations
        \/ Build
Spec == Init /\ [][Next]_vars

\* ---- properties -------------------------------------------------------------
Built == pc = "built"
Complete == Built => P_Complete(Case)
\* (every name that can be missing here is an explicit one: Base holds the
\* symbol-implied names)
FailFast == Built => (outcome = "rejected" <=> Witnesses(Case) # {})

\* exactly which combinations are incomplete
Hidden(p) == ~ clean /\ p \in user   \* the user's array carried it already
Predicted ==
    CASE Toy = "incomplete" -> opt["o2"] /\ ~ Hidden("p2")
      [] Toy = "rolemix"    -> opt["o3"] /\ solids /\ ~ Hidden("V")
      [] OTHER              -> FALSE
Characterised == (Built /\ Toy # "stale") => (Witnesses(Case) # {} <=> Predicted)

\* the witness names the equation, the role, the array and the property
Named ==
    (Built /\ Toy = "rolemix") =>
        Witnesses(Case) \subseteq
            {[cls |-> "E3", role |-> "dest", array |-> "fluid",
              missing |-> {"V"}]}
=============================================================================
