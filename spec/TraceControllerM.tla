------------------------- MODULE TraceControllerM -------------------------
(***************************************************************************)
(* Mechanism conformance for C18: the primitive-level event log of the     *)
(* real CommandManager (recorded under the deterministic scheduler) must   *)
(* be a behaviour of the PlusCal model Controller.tla.  Every logged       *)
(* primitive is matched with the label of the same thread that performs    *)
(* that primitive on that object; labels that are not primitives (loop     *)
(* tests, queue/pause updates, call/return) are silent steps.              *)
(* A mismatch is MODEL-DRIFT (reported, never a verdict).                  *)
(***************************************************************************)
EXTENDS Controller, Json, IOUtils, TLCExt

Traces == ndJsonDeserialize(IOEnv.TRACE_FILE)
VARIABLES tid, l
T == Traces[tid]
tvars == <<vars, tid, l>>

Self(e) == IF e.th = "S" THEN 0 ELSE IF e.th = "I1" THEN 1 ELSE 2

IsPrim(e) == e.ev = "prim"

Prim == [ s1 |-> <<"acquire", "qlock">>, s3 |-> <<"release", "qlock">>,
          s4 |-> <<"acquire", "qlock">>, s6 |-> <<"acquire", "plock">>,
          s7 |-> <<"notify_all", "plock">>, s8 |-> <<"release", "plock">>,
          s9 |-> <<"cond_wait", "qlock">>, s10 |-> <<"cond_wake", "qlock">>,
          s12 |-> <<"release", "qlock">>, s13 |-> <<"step", "">>,
          rq2 |-> <<"acquire", "reslock">>, rq4 |-> <<"release", "reslock">>,
          g1 |-> <<"acquire", "dlock">>, g2 |-> <<"release", "dlock">>,
          q1 |-> <<"acquire", "dlock">>, q2 |-> <<"acquire", "qlock">>,
          q4 |-> <<"release", "qlock">>, q5 |-> <<"release", "dlock">>,
          r2 |-> <<"acquire", "reslock">>, r4 |-> <<"release", "reslock">>,
          p1 |-> <<"acquire", "plock">>, p2 |-> <<"pause_add", "">>,
          p3 |-> <<"notify", "plock">>,
          p4 |-> <<"release", "plock">>,
          w1 |-> <<"acquire", "plock">>, w2 |-> <<"cond_wait", "plock">>,
          w3 |-> <<"cond_wake", "plock">>, w4 |-> <<"release", "plock">>,
          c1 |-> <<"acquire", "plock">>, c2 |-> <<"pause_remove", "">>,
          c3 |-> <<"notify", "plock">>,
          c4 |-> <<"acquire", "qlock">>, c5 |-> <<"notify_all", "qlock">>,
          c6 |-> <<"release", "qlock">>, c7 |-> <<"release", "plock">> ]
Special == {"s5", "rq3", "r1", "r5", "q1b"}
Silent == {"s0", "s2", "s11", "rq1", "rq5", "i0", "i1", "q3", "r3"}
TagName(id) == "t" \o ToString(id[1] * 10 + id[2])

Matches(lbl, e, self) ==
    IF lbl \in DOMAIN Prim THEN e.k = Prim[lbl][1] /\ e.obj = Prim[lbl][2]
    ELSE CASE lbl = "s5"  -> e.k = "test_pause"
                             /\ e.obj = (IF pause # {} THEN "yes" ELSE "no")
           [] lbl = "rq3" -> e.k = "release" /\ e.obj = TagName(cur)
           [] lbl = "q1b" -> e.k = "acquire" /\ e.obj = TagName(<<self, nq[self] + 1>>)
           [] lbl = "r1"  -> e.k = "acquire" /\ e.obj = TagName(<<self, nr[self]>>)
           [] lbl = "r5"  -> e.k = "release" /\ e.obj = TagName(<<self, nr[self]>>)
           [] OTHER -> FALSE

ProcStep(self) == IF self = 0 THEN S(0) \/ RunQueued(0) ELSE I(self)

TInit == Init /\ tid \in 1..Len(Traces) /\ l = 1 /\ TLCSet(tid, 0)

SkipStep == /\ l <= Len(T.events) /\ ~IsPrim(T.events[l])
            /\ l' = l + 1 /\ UNCHANGED <<vars, tid>>
SilentStep == /\ \E self \in {0} \cup Iface :
                   pc[self] \in Silent /\ ProcStep(self)
              /\ UNCHANGED <<tid, l>>
MatchStep == /\ l <= Len(T.events) /\ IsPrim(T.events[l])
             /\ LET e == T.events[l]
                    self == Self(e)
                IN /\ pc[self] \in (DOMAIN Prim \cup Special)
                   /\ Matches(pc[self], e, self)
                   /\ ProcStep(self)
             /\ l' = l + 1 /\ UNCHANGED tid
TNext == SkipStep \/ SilentStep \/ MatchStep

Track == IF TLCGet(tid) < l - 1 THEN TLCSet(tid, l - 1) ELSE TRUE

Report == \A i \in 1..Len(Traces) :
            PrintT(<<"VERDICT", ToJson([id |-> Traces[i].id, m |-> TLCGet(i),
                                        n |-> Len(Traces[i].events)])>>)
=============================================================================
