----------------------------- MODULE TimeStepMC -----------------------------
(***************************************************************************)
(* Design model for C19: the decision structure of compute_time_step as a  *)
(* small state machine, run by TLC over EVERY case of a tiny input         *)
(* universe.  A behaviour builds a case array by array ("build"), then     *)
(* follows the code:                                                       *)
(*   explicit  _get_explicit_dt_adapt           -> return | factors        *)
(*   factors   _get_dt_adapt_factors (start -1, _my_max of nothing -1)     *)
(*   hmin      compute_h_minimum (start 1.0; at set-up when fixed_h)       *)
(*   combine   three candidates from inf, min, (<= 0 or inf) -> None       *)
(*   ret       Solver._compute_timestep: None -> fixed step                *)
(* Invariants compare the mechanism's result with the property layer of    *)
(* TimeStep.tla (Allowed / PBounds).  The constant Df is the set of        *)
(* defects present in the mechanism that is run: with Df = {} (the code as *)
(* it is, all four findings repaired) Documented must HOLD on every case,  *)
(* without any masking.  With Df = {one repaired defect} Documented is     *)
(* expected to FAIL: TLC re-discovers that defect, which measures that the *)
(* universe is sensitive to it (Before: all four, the pre-fix code).       *)
(*                                                                         *)
(* Universe (constants): 1..MaxArr arrays; an array has a subset of the    *)
(* four optional properties, 0..MaxReal real and 0..MaxGhost ghost         *)
(* particles; h in HVals, values of present properties in AVals / CVals /  *)
(* FVals / VVals (absent: 0); in total at most MaxPart particles and       *)
(* MaxFlags present properties; cfl in CflVals, fixed_h in BOOLEAN, fixed  *)
(* step Dt.  Only WellFormed cases (all roots exact) are run.              *)
(***************************************************************************)
EXTENDS TimeStep, TLC, Json

CONSTANTS MaxArr, MaxReal, MaxGhost, MaxPart, MaxFlags,
          HVals, AVals, CVals, FVals, VVals, CflVals, Dt,
          Df,           \* defects present in the mechanism ({}: current code)
          Emit          \* TRUE: print every case (the check replays each one
                        \* into the real code)

\* Named value sets (a .cfg cannot contain tuples): HVals <- H5 etc.
H5 == {<<1, 4>>, <<1, 2>>, <<1, 1>>, <<2, 1>>, <<4, 1>>}
H4 == {<<1, 2>>, <<1, 1>>, <<2, 1>>, <<4, 1>>}
H3 == {<<1, 4>>, <<1, 1>>, <<4, 1>>}
A3 == {<<0, 1>>, <<1, 8>>, <<1, 4>>}
A2 == {<<0, 1>>, <<1, 8>>}
C3 == {<<0, 1>>, <<4, 1>>, <<8, 1>>}
C2 == {<<0, 1>>, <<8, 1>>}
F3 == {<<0, 1>>, <<1, 1>>, <<16, 1>>}
F2 == {<<0, 1>>, <<16, 1>>}
V3 == {<<0, 1>>, <<2, 1>>, <<16, 1>>}
V2 == {<<0, 1>>, <<16, 1>>}
Cfl1 == {<<1, 2>>}
Cfl2 == {<<1, 2>>, <<3, 10>>}
Dt1000 == <<1000, 1>>

VARIABLES case, pc, ad, fac, hmin, res, sres
vars == <<case, pc, ad, fac, hmin, res, sres>>

Bit(b) == IF b THEN 1 ELSE 0
NFlags(hs) == Bit(hs.adapt) + Bit(hs.cfl) + Bit(hs.force) + Bit(hs.visc)
HasU == {hs \in [adapt : BOOLEAN, cfl : BOOLEAN, force : BOOLEAN,
                 visc : BOOLEAN] : NFlags(hs) <= MaxFlags}
PartU(hs) == [h : HVals,
              adapt : IF hs.adapt THEN AVals ELSE {Zero},
              cfl   : IF hs.cfl   THEN CVals ELSE {Zero},
              force : IF hs.force THEN FVals ELSE {Zero},
              visc  : IF hs.visc  THEN VVals ELSE {Zero}]
RECURSIVE SumOver(_, _, _)
SumOver(c, F(_, _), k) == IF k = 0 THEN 0 ELSE F(c, k) + SumOver(c, F, k - 1)
TotPart(c) == SumOver(c, NAll, Len(c.arrays))
FlagsOf(c, a) == NFlags(c.arrays[a].has)
TotFlags(c) == SumOver(c, FlagsOf, Len(c.arrays))

Init ==
    /\ case \in [arrays : {<<>>}, cfl : CflVals, dt : {Dt},
                 fixed_h : BOOLEAN]
    /\ pc = "build"
    /\ ad = NoneV /\ hmin = NoneV /\ res = NoneV /\ sres = NoneV
    /\ fac = [cfl |-> Zero, force |-> Zero, visc |-> Zero]

Min2(a, b) == IF a < b THEN a ELSE b
AddArray ==
    /\ pc = "build" /\ Len(case.arrays) < MaxArr
    /\ LET roomP == MaxPart - TotPart(case)
           roomF == MaxFlags - TotFlags(case)
       IN \E hs \in {x \in HasU : NFlags(x) <= roomF} :
          \E nr \in 0 .. Min2(MaxReal, roomP) :
          \E ng \in 0 .. Min2(MaxGhost, roomP - nr) :
          \E r \in [1 .. nr -> PartU(hs)], g \in [1 .. ng -> PartU(hs)] :
              case' = [case EXCEPT !.arrays =
                          Append(@, [has |-> hs, real |-> r, ghost |-> g])]
    /\ UNCHANGED <<pc, ad, fac, hmin, res, sres>>

\* the solver asks for the step (set_fixed_h ran at set-up, the NNPS and the
\* domain were updated by the integrator's step)
Call ==
    /\ pc = "build" /\ Len(case.arrays) >= 1 /\ WellFormed(case)
    /\ Emit => PrintT(<<"CASE", ToJson(case)>>)
    /\ pc' = "explicit"
    /\ UNCHANGED <<case, ad, fac, hmin, res, sres>>

Explicit ==
    /\ pc = "explicit"
    /\ ad' = M_ExplicitAdapt(case, Df)
    /\ IF ad'.k # "none" THEN res' = ad' /\ pc' = "ret"
       ELSE res' = res /\ pc' = "factors"
    /\ UNCHANGED <<case, fac, hmin, sres>>

Factors ==
    /\ pc = "factors"
    /\ fac' = M_Factors(case)
    /\ pc' = "hmin"
    /\ UNCHANGED <<case, ad, hmin, res, sres>>

\* fixed_h: self.h_minimum was computed by set_fixed_h at set-up from the
\* same arrays; otherwise computed now.  Same function of the inputs.
Hmin ==
    /\ pc = "hmin"
    /\ hmin' = M_Hmin(case, Df)
    /\ pc' = "combine"
    /\ UNCHANGED <<case, ad, fac, res, sres>>

Combine ==
    /\ pc = "combine"
    /\ res' = M_Combine(case, fac, hmin)
    /\ pc' = "ret"
    /\ UNCHANGED <<case, ad, fac, hmin, sres>>

Ret ==
    /\ pc = "ret"
    /\ sres' = M_Solver(case, res)
    /\ pc' = "done"
    /\ UNCHANGED <<case, ad, fac, hmin, res>>

Next == AddArray \/ Call \/ Explicit \/ Factors \/ Hmin \/ Combine \/ Ret
Spec == Init /\ [][Next]_vars

Done == pc = "done"
\* the step-wise model is the functional model used for trace validation
Functional == Done => res = MechD(case, Df) /\ sres = M_Solver(case, res)
\* the statement (no masking).  Must hold for Df = {}.
Documented == Done => Failed(case, res, sres) = {}
=============================================================================
