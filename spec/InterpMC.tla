------------------------------ MODULE InterpMC ------------------------------
(***************************************************************************)
(* Design check for C14 (Interp.tla).                                      *)
(*                                                                         *)
(* (1) The clauses of the property layer are theorems of the documented    *)
(*     formulas: ShepardBounds, ConstantReproduced, ZeroWhenNothingInRange *)
(*     for the normalised methods, Order1Linear and the soundness of       *)
(*     WellCond (all Cauchy-Binet terms of one sign => det # 0) for the    *)
(*     moment system with integer volumes - on EVERY source set of a small *)
(*     universe and every lattice point around it.                         *)
(* (2) Mechanism layer: the objects an Interpolator keeps - the arrays the *)
(*     compiled evaluator reads (bound by reference), the target points it *)
(*     writes, the neighbour search with its snapshot of positions - and   *)
(*     how set_interpolation_points / update_particle_arrays / update()    *)
(*     rebind them.  Follows: after every history the value the mechanism  *)
(*     computes is the documented value for the CURRENT state.  It also    *)
(*     contains the design fact that the range of the neighbour search     *)
(*     (radius_scale * max(h_i, h_j)) covers the support of WIJ, WI and WJ.*)
(*     Df re-introduces a missing rebinding: TLC must then find a history  *)
(*     that violates Follows (sensitivity of the universe).                *)
(***************************************************************************)
EXTENDS Interp, Json

CONSTANTS Dim,        \* 1 or 2
          L,          \* source coordinates 0..L
          MinN, MaxN, \* particles per array
          NArr,       \* number of source arrays
          HVals, MVals, RVals, FVs,
          Methods,
          History,    \* TRUE: all actions; FALSE: initial states only
          Reach,      \* theorems at the lattice points -Reach..L+Reach
          Df,         \* defects re-introduced in the mechanism
          Emit        \* TRUE: print every source set of the universe (CASE)

Coords(lo, hi) == IF Dim = 1 THEN {<<x, 0, 0>> : x \in lo..hi}
                  ELSE {<<x, y, 0>> : x \in lo..hi, y \in lo..hi}
PartSet == {[x |-> c[1], y |-> c[2], z |-> c[3], h |-> h, m |-> m,
             rho |-> r, f |-> f, g |-> 0] :
               c \in Coords(0, L), h \in HVals, m \in MVals, r \in RVals,
               f \in FVs}
Contents == UNION {[1..n -> PartSet] : n \in MinN..MaxN}
ArrNames == <<"a", "b", "c">>
SrcSet == {[k \in 1..NArr |-> [name |-> ArrNames[k], props |-> <<"f">>, p |-> cs[k]]] :
              cs \in [1..NArr -> Contents]}
Pt(c) == [x |-> c[1], y |-> c[2], z |-> c[3], h |-> 0]
\* every lattice point within reach of the sources
AllPts == {Pt(c) : c \in Coords(-Reach, L + Reach)}
\* the two point sets SetPoints can choose from
PtSeqs == IF Dim = 1
          THEN {<<Pt(<<0, 0, 0>>), Pt(<<L + 1, 0, 0>>)>>, <<Pt(<<1, 0, 0>>)>>}
          ELSE {<<Pt(<<0, 0, 0>>), Pt(<<L, L + 1, 0>>)>>, <<Pt(<<1, 0, 0>>)>>}

VARIABLES src,     \* the user's current source arrays
          pts,     \* the current target points
          th,      \* smoothing length of the target points
          evcur,   \* the evaluator reads the current array objects
          old,     \* ... or these (contents of superseded objects)
          evpts,   \* the point array the evaluator writes / reads
          nn,      \* neighbour search: [P, pts] snapshot at its last update
          ready    \* the universe's source set has been chosen completely
vars == <<src, pts, th, evcur, old, evpts, nn, ready>>

\* the neighbour search sees the geometry only
Snap(S, T) == [P |-> [k \in 1..Len(Parts(S)) |->
                        [x |-> Parts(S)[k].x, y |-> Parts(S)[k].y,
                         z |-> Parts(S)[k].z, h |-> Parts(S)[k].h]],
               pts |-> T]

\* With History the initial states are all source sets.  Without, the
\* geometry is chosen first and the values (m, rho, f) by one Fill step, so
\* that TLC's workers share the enumeration.
MinOf(S) == CHOOSE v \in S : \A w \in S : v <= w
Plain(S) == \A k \in 1..Len(Parts(S)) :
               LET q == Parts(S)[k]
               IN q.m = MinOf(MVals) /\ q.rho = MinOf(RVals) /\ q.f = MinOf(FVs)
Init ==
    /\ src \in SrcSet /\ pts \in PtSeqs
    /\ History \/ (Plain(src) /\ pts = CHOOSE t \in PtSeqs : TRUE)
    /\ ready = History
    /\ th = HMax(src)
    /\ evcur = TRUE /\ old = <<>> /\ evpts = pts
    /\ nn = Snap(src, pts)
Fill ==
    /\ ~ready /\ ready' = TRUE
    /\ \E vs \in [1..NArr -> [1..MaxN -> MVals \X RVals \X FVs]] :
          src' = [a \in 1..NArr |->
                    [src[a] EXCEPT !.p = [k \in 1..Len(src[a].p) |->
                        [src[a].p[k] EXCEPT !.m = vs[a][k][1],
                                            !.rho = vs[a][k][2],
                                            !.f = vs[a][k][3]]]]]
    /\ Emit => PrintT(<<"CASE", ToJson(src')>>)
    /\ UNCHANGED <<pts, th, evcur, old, evpts, nn>>

\* set_interpolation_points: new point array (h = largest source h), then
\* update_particle_arrays(self.particle_arrays)
SetPoints(np) ==
    /\ pts' = np /\ th' = HMax(src)
    /\ evpts' = IF "stale-points" \in Df THEN evpts ELSE np
    /\ evcur' = TRUE /\ old' = <<>>
    /\ nn' = Snap(src, np)
    /\ UNCHANGED <<src, ready>>
\* update_particle_arrays: new array objects; evaluator and neighbour search
\* are rebound
UpdateArrays(ns) ==
    /\ src' = ns
    /\ IF "skip-rebind" \in Df
       THEN evcur' = FALSE /\ old' = (IF evcur THEN src ELSE old)
       ELSE evcur' = TRUE /\ old' = <<>>
    /\ nn' = IF "no-nnps-rebuild" \in Df THEN nn ELSE Snap(ns, pts)
    /\ UNCHANGED <<pts, th, evpts, ready>>
\* the user moves particles / changes h in place and calls update()
SameShape(S, T) == \A a \in 1..Len(S) : Len(S[a].p) = Len(T[a].p)
MoveUpdate(ns) ==
    /\ SameShape(ns, src) /\ Vals3(ns) = Vals3(src) /\ ns # src
    /\ src' = ns
    /\ nn' = IF "no-update" \in Df THEN nn ELSE Snap(ns, pts)
    /\ UNCHANGED <<pts, th, evcur, old, evpts, ready>>
\* values changed in place; nothing to call
SetValues(ns) ==
    /\ SameShape(ns, src) /\ Geo(ns) = Geo(src) /\ ns # src
    /\ src' = ns
    /\ UNCHANGED <<pts, th, evcur, old, evpts, nn, ready>>

Next == \/ Fill
        \/ /\ History
           /\ \/ \E np \in PtSeqs : SetPoints(np)
              \/ \E ns \in SrcSet : UpdateArrays(ns) \/ MoveUpdate(ns)
                                    \/ SetValues(ns)
Spec == Init /\ [][Next]_vars

-----------------------------------------------------------------------------
(* Mechanism value: the evaluator loops over the neighbours the search     *)
(* returns (snapshot geometry, gather-or-scatter range, strict) and        *)
(* evaluates the kernel on the live coordinates of the arrays it is bound  *)
(* to.                                                                     *)
ESrc == IF evcur THEN Parts(src) ELSE Parts(old)
InSnapRange(i, k) ==
    /\ k <= Len(nn.P) /\ i <= Len(nn.pts)
    /\ D2(nn.pts[i], nn.P[k]) < Sq(2 * Max2(th, nn.P[k].h))
RECURSIVE Filter(_, _, _)
Filter(P, i, k) ==
    IF k = 0 THEN <<>>
    ELSE Filter(P, i, k - 1) \o (IF InSnapRange(i, k) THEN <<P[k]>> ELSE <<>>)
MValue(method, i) ==
    PValue(method, Filter(ESrc, i, Len(ESrc)), evpts[i], th)

Follows0 ==
    /\ Len(evpts) = Len(pts)
    /\ \A method \in Methods \ {"order1"} : \A i \in 1..Len(pts) :
          MValue(method, i) = PValue(method, Parts(src), pts[i], th)
Bound0 == evcur /\ evpts = pts /\ nn = Snap(src, pts)

-----------------------------------------------------------------------------
(* Theorems of the formulas, at every lattice point, for both candidate    *)
(* smoothing lengths of the points.                                        *)
THs == {th, HMax(src)}
NormMethods == {m \in Methods : Normalised(m)}
ContribOf(method, p, t) == Contrib(WKind(method), Parts(src), p, t)
ThmBounds0 ==
    \A method \in NormMethods, p \in AllPts, t \in THs :
        LET I == ContribOf(method, p, t)
            v == PValue(method, Parts(src), p, t)
        IN I # {} =>
             /\ RLe(RInt(SetMin(FVals(Parts(src), I))), v)
             /\ RLe(v, RInt(SetMax(FVals(Parts(src), I))))
ThmConstant0 ==
    \A method \in NormMethods, p \in AllPts, t \in THs :
        LET I == ContribOf(method, p, t)
        IN (I # {} /\ Cardinality(FVals(Parts(src), I)) = 1) =>
             PValue(method, Parts(src), p, t)
                 = RInt(SetMin(FVals(Parts(src), I)))
ThmZero0 ==
    \A method \in Methods \ {"order1"}, p \in AllPts, t \in THs :
        ContribOf(method, p, t) = {} =>
            PValue(method, Parts(src), p, t) = <<0, 1>>

\* order1 with integer volumes V_j = m_j, the field replaced by each linear
\* form of a small set
LinSet == {[is |-> TRUE, a |-> a, b |-> <<bx, by, 0>>] :
              a \in {0, 3}, bx \in {-1, 0, 2}, by \in (IF Dim = 1 THEN {0} ELSE {0, 1})}
WithField(P, lin) == [k \in 1..Len(P) |-> [P[k] EXCEPT !.f = LinAt(lin, P[k])]]
Vols(P) == [k \in 1..Len(P) |-> P[k].m]
ThmWellCond0 ==
    "order1" \in Methods =>
      \A p \in AllPts, t \in THs :
        WellCond(Parts(src), p, t, Dim) =>
            Det(Moment(Parts(src), Vols(Parts(src)), p, t, Dim)) # 0
ThmOrder10 ==
    "order1" \in Methods =>
      \A p \in AllPts, t \in THs :
        LET P == Parts(src)
            M == Moment(P, Vols(P), p, t, Dim)
        IN Det(M) # 0 =>
             \A lin \in LinSet :
                LET Q == WithField(P, lin)
                    u == [j \in 1..(Dim + 1) |-> LinComp(lin, p, j - 1)]
                IN CramerNum(M, MomentRhs(Q, Vols(Q), p, t, Dim))
                      = [j \in 1..(Dim + 1) |-> Det(M) * u[j]]
\* the invariants proper: once the source set is complete
Follows == ready => Follows0
ThmBounds == ready => ThmBounds0
ThmConstant == ready => ThmConstant0
ThmZero == ready => ThmZero0
ThmWellCond == ready => ThmWellCond0
ThmOrder1 == ready => ThmOrder10
Bound == ready => Bound0
\* coverage of the universe: WellCond holds somewhere
SomeWellCond == \E p \in AllPts : WellCond(Parts(src), p, th, Dim)
=============================================================================
