------------------------------- MODULE Setup -------------------------------
(***************************************************************************)
(* C20 - incomplete problems are rejected at set-up, never compiled and    *)
(* run.                                                                    *)
(*                                                                         *)
(* A *case* is one problem definition handed to the set-up chain           *)
(*   AccelerationEval(arrays, equations, kernel)   [make_acceleration_evals*)
(*   for MultiStageEquations] -> SPHCompiler(a_evals, integrator) -> code  *)
(*   generation (everything SPHCompiler.compile() does before the C        *)
(*   compiler runs),   or   SPHEvaluator(arrays, equations, ...) up to the *)
(*   same point:                                                           *)
(*   [api       : "compiler" | "evaluator",                                *)
(*    structure : "flat" | "group" | "nested" | "iterated" | "multistage"  *)
(*    arrays    : Seq([name, props]),   props = names of ALL properties    *)
(*                                      and constants of that array        *)
(*    eqs       : Seq([name,            the class name of the equation     *)
(*                     dest, sources,   array names (sources a sequence,   *)
(*                                      <<>> = an equation without sources)*)
(*                     d, s,            names x of the explicit d_x / s_x  *)
(*                                      arguments of its methods           *)
(*                     syms]),          precomputed symbols among the      *)
(*                                      arguments of its `loop`            *)
(*    steppers  : Seq([array, name, d])]  integrator steppers (class name, *)
(*                                      names x of the d_x arguments of    *)
(*                                      all its methods: initialize,       *)
(*                                      stage1, stage2, stage3, ...)       *)
(* `eqs` is in the order in which the equations are written; `structure`   *)
(* says how they are wrapped (Stages).  Names are strings, sets are sets.  *)
(*                                                                         *)
(* The contract speaks of one problem: it holds for every build whatever   *)
(* was built before in the same process (histories: SetupMC.tla).          *)
(*                                                                         *)
(* An *outcome* is what the chain did: [k, stage, tokens]                  *)
(*   k = "accepted"  every constructor returned and the code was generated *)
(*       "rejected"  an exception was raised; stage = where ("aeval",      *)
(*                   "compiler", "codegen", or "evaluator"), tokens = the  *)
(*                   set of identifiers occurring in its message           *)
(*       anything else ("crash", "timeout"): the chain neither returned    *)
(*                   nor raised.                                           *)
(*                                                                         *)
(* Layers: (P) Problems / Failed restate the statement and nothing else;   *)
(* (M) M_* follow what the code does (variant "explicit": the fail-fast    *)
(* check reads method signatures only - the code as it is; "closure": the  *)
(* check also follows the symbol table - the proposed repair; "none": no   *)
(* property check at all, used to measure sensitivity).                    *)
(***************************************************************************)
EXTENDS Integers, Sequences, FiniteSets, TLC

Range(f) == {f[i] : i \in DOMAIN f}

-----------------------------------------------------------------------------
(* The precomputed pair symbols (pysph/sph/equation.py precomputed_symbols, *)
(* docs "writing equations"): for each symbol the destination properties   *)
(* (d_x[d_idx]) and source properties (s_x[s_idx]) its defining code reads *)
(* and the other symbols it is computed from.  Transcribed from            *)
(*   HIJ = 0.5*(d_h + s_h)            EPS = 0.01*HIJ*HIJ                   *)
(*   RHOIJ = 0.5*(d_rho + s_rho)      RHOIJ1 = 1.0/RHOIJ                   *)
(*   XIJ = d_(x,y,z) - s_(x,y,z)      VIJ = d_(u,v,w) - s_(u,v,w)          *)
(*   R2IJ = XIJ.XIJ                   RIJ = sqrt(R2IJ)                     *)
(*   WIJ = KERNEL(XIJ, RIJ, HIJ)      WDP = KERNEL(XIJ, DELTAP*HIJ, HIJ)   *)
(*   WI = KERNEL(XIJ, RIJ, d_h)       WJ = KERNEL(XIJ, RIJ, s_h)           *)
(*   WDASHI = DWDQ(RIJ, d_h)  WDASHJ = DWDQ(RIJ, s_h)  WDASHIJ = (RIJ,HIJ) *)
(*   DWIJ = GRADIENT(XIJ, RIJ, HIJ)   DWI: d_h   DWJ: s_h                  *)
(*   GHI = GRADH(XIJ, RIJ, d_h)  GHJ: s_h   GHIJ = GRADH(XIJ, RIJ, HIJ)    *)
(* The check binds this table to the code: the driver dumps the real table *)
(* and TabDiff must be empty (otherwise MODEL-DRIFT is reported and the    *)
(* verdicts are computed with the real table).                             *)
Sy(d, s, deps) == [d |-> d, s |-> s, deps |-> deps]
XYZ == {"x", "y", "z"}
UVW == {"u", "v", "w"}
SymTab ==
    [HIJ     |-> Sy({"h"}, {"h"}, {}),
     EPS     |-> Sy({}, {}, {"HIJ"}),
     RHOIJ   |-> Sy({"rho"}, {"rho"}, {}),
     RHOIJ1  |-> Sy({}, {}, {"RHOIJ"}),
     XIJ     |-> Sy(XYZ, XYZ, {}),
     VIJ     |-> Sy(UVW, UVW, {}),
     R2IJ    |-> Sy({}, {}, {"XIJ"}),
     RIJ     |-> Sy({}, {}, {"R2IJ"}),
     WIJ     |-> Sy({}, {}, {"XIJ", "RIJ", "HIJ"}),
     WDP     |-> Sy({}, {}, {"XIJ", "HIJ"}),
     WI      |-> Sy({"h"}, {}, {"XIJ", "RIJ"}),
     WJ      |-> Sy({}, {"h"}, {"XIJ", "RIJ"}),
     WDASHI  |-> Sy({"h"}, {}, {"RIJ"}),
     WDASHJ  |-> Sy({}, {"h"}, {"RIJ"}),
     WDASHIJ |-> Sy({}, {}, {"RIJ", "HIJ"}),
     DWIJ    |-> Sy({}, {}, {"XIJ", "RIJ", "HIJ"}),
     DWI     |-> Sy({"h"}, {}, {"XIJ", "RIJ"}),
     DWJ     |-> Sy({}, {"h"}, {"XIJ", "RIJ"}),
     GHI     |-> Sy({"h"}, {}, {"XIJ", "RIJ"}),
     GHJ     |-> Sy({}, {"h"}, {"XIJ", "RIJ"}),
     GHIJ    |-> Sy({}, {}, {"XIJ", "RIJ", "HIJ"})]

\* a table recorded from the code: sequence of [sym, d, s, deps] (sequences)
TabOf(j) ==
    [y \in {j[i].sym : i \in DOMAIN j} |->
        LET r == j[CHOOSE i \in DOMAIN j : j[i].sym = y]
        IN Sy(Range(r.d), Range(r.s), Range(r.deps))]
\* the symbols on which two tables differ
TabDiff(T1, T2) ==
    {y \in (DOMAIN T1) \cup (DOMAIN T2) :
        \/ y \notin DOMAIN T1 \/ y \notin DOMAIN T2
        \/ T1[y].d # T2[y].d \/ T1[y].s # T2[y].s \/ T1[y].deps # T2[y].deps}

\* all symbols needed to compute the symbols of S (S itself included)
RECURSIVE Closure(_, _)
Closure(T, S) ==
    LET S0 == S \cap DOMAIN T
        N == S0 \cup UNION {T[y].deps \cap DOMAIN T : y \in S0}
    IN IF N = S0 THEN S0 ELSE Closure(T, N)
SymD(T, S) == UNION {T[y].d : y \in Closure(T, S)}
SymS(T, S) == UNION {T[y].s : y \in Closure(T, S)}

-----------------------------------------------------------------------------
(* Access to a case *)
ArrIdx(c, a) == {i \in DOMAIN c.arrays : c.arrays[i].name = a}
HasArr(c, a) == ArrIdx(c, a) # {}
PropsOf(c, a) == c.arrays[CHOOSE i \in ArrIdx(c, a) : TRUE].props
HasSrc(e) == Len(e.sources) > 0

\* Required(eq, role): explicit names plus the closure of the symbol table.
\* The symbols are computed inside the loop over the neighbours of a source:
\* an equation without sources has no such loop.  `lenient` includes the
\* symbols nevertheless (the statement does not say; see May below).
EffSyms(e, lenient) == IF HasSrc(e) \/ lenient THEN e.syms ELSE {}
Required(T, e, role, lenient) ==
    IF role = "dest" THEN e.d \cup SymD(T, EffSyms(e, lenient))
    ELSE e.s \cup SymS(T, EffSyms(e, lenient))
Explicit(e, role) == IF role = "dest" THEN e.d ELSE e.s

-----------------------------------------------------------------------------
(* (P) property layer.  A *problem* of a case:                             *)
(*   [who, kind, array, names, expl]                                       *)
(*   kind "dest"/"source"/"stepper_array": `who` (equation or stepper      *)
(*        class) names array `array`, which does not exist; names = {}     *)
(*   kind "props"/"stepper_props": `who`, applied to the existing array    *)
(*        `array`, needs `names`, which that array does not have;          *)
(*        expl = those of them that are explicit arguments                 *)
Prob(w, k, a, n, x) == [who |-> w, kind |-> k, array |-> a, names |-> n,
                        expl |-> x]
PropProb(T, c, e, a, role, lenient) ==
    IF ~ HasArr(c, a) THEN {}
    ELSE LET mis == Required(T, e, role, lenient) \ PropsOf(c, a)
         IN IF mis = {} THEN {}
            ELSE {Prob(e.name, "props", a, mis, mis \cap Explicit(e, role))}
EqProblems(T, c, e, lenient) ==
    LET srcs == Range(e.sources)
    IN (IF HasArr(c, e.dest) THEN {}
        ELSE {Prob(e.name, "dest", e.dest, {}, {})})
       \cup {Prob(e.name, "source", a, {}, {}) :
             a \in {b \in srcs : ~ HasArr(c, b)}}
       \cup PropProb(T, c, e, e.dest, "dest", lenient)
       \cup UNION {PropProb(T, c, e, a, "source", lenient) : a \in srcs}
StProblems(c, st) ==
    IF ~ HasArr(c, st.array)
    THEN {Prob(st.name, "stepper_array", st.array, {}, {})}
    ELSE LET mis == st.d \ PropsOf(c, st.array)
         IN IF mis = {} THEN {}
            ELSE {Prob(st.name, "stepper_props", st.array, mis, mis)}
AllProblems(T, c, lenient) ==
    UNION {EqProblems(T, c, c.eqs[i], lenient) : i \in DOMAIN c.eqs}
    \cup UNION {StProblems(c, c.steppers[i]) : i \in DOMAIN c.steppers}
\* Must: the problems the statement speaks of; May: what a rejection may be
\* about (additionally: symbols of an equation without sources)
Must(T, c) == AllProblems(T, c, FALSE)
May(T, c) == AllProblems(T, c, TRUE)

\* "raises an error that names the equation and what is missing": the
\* message contains the class name of an equation that has a problem and,
\* for that problem, a missing name (or the array that does not exist).
\* A stepper is identified by its class name or by the array it is given
\* for (an integrator has one stepper per array); an error that names
\* neither (a bare KeyError 'd_x') does not say who lacks the name.  That
\* the message also names the array from which a property is missing is
\* reported (NamesArray) but not demanded.  (tokens: the identifiers of
\* the message, and for d_x / s_x also x.)
StepperKinds == {"stepper_array", "stepper_props"}
WhoOK(p, tok) == p.who \in tok \/ (p.kind \in StepperKinds /\ p.array \in tok)
WhatOK(p, tok) == IF p.names = {} THEN p.array \in tok
                  ELSE p.names \cap tok # {}
NamesArray(T, c, out) ==
    \E p \in May(T, c) : WhoOK(p, out.tokens) /\ WhatOK(p, out.tokens)
                         /\ p.array \in out.tokens

Clauses == {"Returned", "RejectIncomplete", "AcceptComplete",
            "NamesEquation", "NamesMissing"}
Failed(T, c, out) ==
    LET must == Must(T, c)
        may == May(T, c)
        rej == out.k = "rejected"
    IN {n \in Clauses :
          ~ CASE n = "Returned" -> out.k \in {"accepted", "rejected"}
              \* incomplete problem: must not pass the set-up chain
              [] n = "RejectIncomplete" -> must # {} => out.k # "accepted"
              \* complete problem: constructing must succeed
              [] n = "AcceptComplete" -> may = {} => ~ rej
              [] n = "NamesEquation" ->
                    (rej /\ may # {}) => \E p \in may : WhoOK(p, out.tokens)
              [] n = "NamesMissing" ->
                    (rej /\ may # {}) =>
                        IF \E p \in may : WhoOK(p, out.tokens)
                        THEN \E p \in may : WhoOK(p, out.tokens)
                                            /\ WhatOK(p, out.tokens)
                        ELSE \E p \in may : WhatOK(p, out.tokens)}

Expected(T, c) == IF Must(T, c) # {} THEN "rejected"
                  ELSE IF May(T, c) = {} THEN "accepted" ELSE "either"

-----------------------------------------------------------------------------
(* Findings of known_findings.json as predicates.                          *)
(* C20-symbol-requirements-unchecked: the chain accepted a problem in      *)
(* which every missing name is required ONLY through a precomputed symbol  *)
(* (no explicit argument is missing, every array named exists).  Nothing   *)
(* else is explained by it: an explicit name missing but accepted, a       *)
(* misspelt array accepted, a message that does not name the equation, a   *)
(* crash are violations.                                                   *)
KnownIds == {"C20-symbol-requirements-unchecked"}
SymbolOnly(T, c) ==
    /\ Must(T, c) # {}
    /\ \A p \in Must(T, c) : p.kind = "props" /\ p.expl = {}
Sig(id, T, c, out, f) ==
    CASE id = "C20-symbol-requirements-unchecked" ->
            /\ f = {"RejectIncomplete"}
            /\ out.k = "accepted"
            /\ SymbolOnly(T, c)
      [] OTHER -> FALSE
KnownOf(T, c, out, K) ==
    LET f == Failed(T, c, out)
    IN {id \in KnownIds \cap K : Sig(id, T, c, out, f)}

-----------------------------------------------------------------------------
(* (M) mechanism layer: what the set-up chain checks, in its order.        *)
Variants == {"explicit", "closure", "none"}
Acc == [k |-> "accepted", stage |-> "", tokens |-> {}]
Rej(stage, tok) == [k |-> "rejected", stage |-> stage, tokens |-> tok]
NoRej == [k |-> "pass", stage |-> "", tokens |-> {}]

\* The program as written: a sequence of stages (one evaluator each), a
\* stage being a list of equations or of groups.
\* node = [k : "eq" | "group", i : index into eqs, kids : Seq(node)]
EqN(i) == [k |-> "eq", i |-> i, kids |-> <<>>]
GrN(ks) == [k |-> "group", i |-> 0, kids |-> ks]
Stages(c) ==
    LET n == Len(c.eqs)
    IN CASE c.structure = "flat" -> <<[i \in 1 .. n |-> EqN(i)]>>
         [] c.structure = "group" -> <<[i \in 1 .. n |-> GrN(<<EqN(i)>>)]>>
         [] c.structure \in {"nested", "iterated"} ->   \* (iterated group)
                <<<<GrN([i \in 1 .. n |-> GrN(<<EqN(i)>>)])>>>>
         [] c.structure = "multistage" ->
                [i \in 1 .. n |-> IF i % 2 = 1 THEN <<EqN(i)>>
                                  ELSE <<GrN(<<EqN(i)>>)>>]
\* group_equations: a plain list of equations becomes one group
M_Group(nodes) ==
    IF \A j \in DOMAIN nodes : nodes[j].k = "eq" THEN <<GrN(nodes)>>
    ELSE nodes
\* AccelerationEval.__init__: all_equations (one level of sub-groups)
RECURSIVE Concat(_)
Concat(ss) == IF ss = <<>> THEN <<>> ELSE Head(ss) \o Concat(Tail(ss))
HasSub(g) == \E j \in DOMAIN g.kids : g.kids[j].k = "group"
M_Flatten(groups) ==
    Concat([j \in DOMAIN groups |->
              IF HasSub(groups[j])
              THEN Concat([l \in DOMAIN groups[j].kids |->
                             groups[j].kids[l].kids])
              ELSE groups[j].kids])
M_Order(c) ==              \* indices of the equations in checking order
    LET st == Stages(c)
        fl == Concat([j \in DOMAIN st |-> M_Flatten(M_Group(st[j]))])
    IN [j \in DOMAIN fl |-> fl[j].i]

\* check_equation_array_properties, one equation: invalid dest, then the
\* sources in order, then the properties of dest and of all sources at once
M_Stage(c) == IF c.api = "evaluator" THEN "evaluator" ELSE "aeval"
M_CheckDest(c, e) ==
    IF HasArr(c, e.dest) THEN NoRej ELSE Rej(M_Stage(c), {e.name, e.dest})
M_CheckSources(c, e) ==
    LET bad == {j \in DOMAIN e.sources : ~ HasArr(c, e.sources[j])}
    IN IF bad = {} THEN NoRej
       ELSE LET j == CHOOSE j \in bad : \A l \in bad : j <= l
            IN Rej(M_Stage(c), {e.name, e.sources[j]})
M_Names(T, e, role, variant) ==
    CASE variant = "explicit" -> Explicit(e, role)
      [] variant = "closure" -> Required(T, e, role, FALSE)
      [] variant = "none" -> {}
\* `if not eq_props < props`: a proper subset is demanded
M_ArrErr(c, a, need) ==
    LET have == PropsOf(c, a)
    IN IF need \subseteq have /\ need # have THEN {}
       ELSE {[array |-> a, names |-> need \ have]}
M_CheckProps(T, c, e, variant) ==
    LET errs == M_ArrErr(c, e.dest, M_Names(T, e, "dest", variant))
                \cup UNION {M_ArrErr(c, a, M_Names(T, e, "source", variant)) :
                            a \in Range(e.sources)}
    IN IF errs = {} \/ variant = "none" THEN NoRej
       ELSE Rej(M_Stage(c), {e.name} \cup {x.array : x \in errs}
                            \cup UNION {x.names : x \in errs})
M_CheckEq(T, c, e, variant) ==
    LET r1 == M_CheckDest(c, e)
        r2 == M_CheckSources(c, e)
    IN IF r1.k # "pass" THEN r1
       ELSE IF r2.k # "pass" THEN r2
       ELSE M_CheckProps(T, c, e, variant)
\* IntegratorCythonHelper: _check_integrator_steppers in the constructor,
\* _check_arrays_for_properties while the code is generated
FirstRej(rs) ==            \* first rejection of a sequence of results
    LET bad == {j \in DOMAIN rs : rs[j].k # "pass"}
    IN IF bad = {} THEN NoRej
       ELSE rs[CHOOSE j \in bad : \A l \in bad : j <= l]
M_StepperNames(c) ==
    FirstRej([j \in DOMAIN c.steppers |->
                IF HasArr(c, c.steppers[j].array) THEN NoRej
                ELSE Rej("compiler", {c.steppers[j].array})])
M_StepperProps(c) ==
    FirstRej([j \in DOMAIN c.steppers |->
                LET st == c.steppers[j]
                    mis == st.d \ PropsOf(c, st.array)
                IN IF mis = {} THEN NoRej
                   ELSE Rej("codegen", {st.name, st.array} \cup mis)])
M_Outcome(T, c, variant) ==
    LET ord == M_Order(c)
        r1 == FirstRej([j \in DOMAIN ord |->
                           M_CheckEq(T, c, c.eqs[ord[j]], variant)])
        r2 == M_StepperNames(c)
    IN IF r1.k # "pass" THEN r1
       ELSE IF r2.k # "pass" THEN r2
       ELSE LET r3 == M_StepperProps(c)
            IN IF r3.k # "pass" THEN r3 ELSE Acc

\* a recorded outcome is what the mechanism (variant) predicts
SameOut(out, m) ==
    /\ out.k = m.k
    /\ m.k = "rejected" => out.stage = m.stage /\ m.tokens \subseteq out.tokens
MechMatch(T, c, out) ==
    {v \in {"explicit", "closure"} : SameOut(out, M_Outcome(T, c, v))}

-----------------------------------------------------------------------------
Verdict(id, T, c, out, K) ==
    LET f == Failed(T, c, out)
    IN [id |-> id, failed |-> f,
        known |-> IF f = {} THEN {} ELSE KnownOf(T, c, out, K),
        expected |-> Expected(T, c),
        symbol_only |-> SymbolOnly(T, c),
        names_array |-> (out.k = "rejected" /\ May(T, c) # {})
                        => NamesArray(T, c, out),
        mech |-> MechMatch(T, c, out)]
=============================================================================
