------------------------------ MODULE TraceSim ------------------------------
(***************************************************************************)
(* C05 at the level of whole runs.  A record holds the runs of ONE problem *)
(* through the Application front end under different configurations        *)
(* (neighbour algorithm, cache, OpenMP/threads, re-ordering, sorted        *)
(* neighbours): for every run the per-step and final state of every        *)
(* particle, matched by identity, as exact hexadecimal floats.  The        *)
(* simulation step is a function of the state alone: the configuration is  *)
(* a variable no step depends on, so all runs of a problem for which bit   *)
(* identity is promised must show the same sequence of states.             *)
(***************************************************************************)
EXTENDS Integers, Sequences, FiniteSets, TLC, Json, IOUtils, TLCExt

Traces == ndJsonDeserialize(IOEnv.TRACE_FILE)
VARIABLE tid

\* first step at which run r differs from the reference run (0: never;
\* Len+1: only the final state differs)
FirstDiff(ref, r) ==
    LET n == IF Len(ref.steps) < Len(r.steps) THEN Len(ref.steps) ELSE Len(r.steps)
        D == {k \in 1..n : ref.steps[k] # r.steps[k]}
    IN IF D # {} THEN CHOOSE k \in D : \A j \in D : k <= j
       ELSE IF Len(ref.steps) # Len(r.steps) \/ ref.final # r.final THEN n + 1 ELSE 0

\* who differs in the first differing state
Culprits(a, b) == {a[i][1] : i \in {i \in DOMAIN a : i \notin DOMAIN b \/ a[i] # b[i]}}

Verdict(x) ==
    LET ref == x.runs[1]
        bad == {k \in DOMAIN x.runs : "error" \in DOMAIN x.runs[k]}
        ok  == (DOMAIN x.runs) \ bad
        diff == {k \in ok : 1 \notin bad /\ FirstDiff(ref, x.runs[k]) # 0}
    IN [id |-> x.id,
        errors |-> {x.runs[k].cfg : k \in bad},
        differing |-> {[cfg |-> x.runs[k].cfg, step |-> FirstDiff(ref, x.runs[k])] : k \in diff},
        nruns |-> Len(x.runs)]

TInit == tid \in 1..Len(Traces) /\ TLCSet(tid, Verdict(Traces[tid]))
TNext == FALSE /\ UNCHANGED tid
Report == \A i \in 1..Len(Traces) : PrintT(<<"VERDICT", ToJson(TLCGet(i))>>)
=============================================================================
