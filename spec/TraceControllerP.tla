------------------------- MODULE TraceControllerP -------------------------
(* Evaluates the property layer (ControllerProps) on executions recorded   *)
(* from the real CommandManager under the deterministic scheduler.         *)
EXTENDS ControllerProps, Json, IOUtils, TLC, TLCExt
Traces == ndJsonDeserialize(IOEnv.TRACE_FILE)
VARIABLE tid
TInit == tid \in 1..Len(Traces) /\ TLCSet(tid, Verdict(Traces[tid]))
TNext == FALSE /\ tid' = tid
Report == \A i \in 1..Len(Traces) : PrintT(<<"VERDICT", ToJson(TLCGet(i))>>)
=============================================================================
