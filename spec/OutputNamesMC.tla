-------------------------- MODULE OutputNamesMC --------------------------
(***************************************************************************)
(* Design check of the file-name handling (C11): the name logic of         *)
(* pysph.solver.output.dump and of pysph.solver.utils.get_files, modelled  *)
(* step by step with Python's str.endswith / os.path.splitext / glob /     *)
(* sort(key=_sort_key) on character sequences, against the mapping of      *)
(* Output.tla (FileOf, SolverFile, InCountOrder), for every name built     *)
(* from at most MaxTok tokens and every run over a set of counts.          *)
(***************************************************************************)
EXTENDS Output

CONSTANTS MaxTok, Counts, H5

VARIABLES kind, name, run

Tok == {<<"a">>, <<".">>, <<"_">>, <<"0">>, <<"5">>, <<"/">>,
        <<"n", "p", "z">>, <<"h", "d", "f", "5">>, DotNpz, DotHdf}
Cat(q) == LET F[i \in 0..Len(q)] == IF i = 0 THEN <<>> ELSE F[i - 1] \o q[i]
          IN F[Len(q)]
AllNames == UNION {{Cat(q) : q \in [1..k -> Tok]} : k \in 1..MaxTok}
\* a usable file name: no empty directory part, and the last component has
\* a stem (something other than dots before the format extension)
Usable(p) == /\ p # <<>> /\ p[Len(p)] # "/" /\ p[1] # "/"
             /\ \A i \in 1..(Len(p) - 1) : ~(p[i] = "/" /\ p[i + 1] = "/")
             /\ LET q == StripExt(p)
                IN \E i \in (LastIndex(q, "/") + 1)..Len(q) : q[i] # "."
FNames == {p \in AllNames : Usable(p)}
\* directories and base names for the Solver pattern (no "/" in a base)
Bases == {p \in UNION {{Cat(q) : q \in [1..k -> Tok]} : k \in 1..2} :
            LastIndex(p, "/") = 0}
Dirs == {<<>>, <<"d">>, <<"d", ".", "1">>, <<"a", ".", "5", "_", "o">>}

\* ---- Python ----------------------------------------------------------------
\* os.path.splitext: the extension starts at the last dot of the last
\* component unless that component has only dots before it
SplitRoot(p) ==
    LET s == LastIndex(p, "/")
        d == LastIndex(p, ".")
    IN IF HasInnerDot(p) THEN SubSeq(p, 1, d - 1) ELSE p
EndsFmt(p) == HasSuffix(p, <<"h", "d", "f", "5">>) \/ HasSuffix(p, <<"n", "p", "z">>)

\* output.dump(filename, ...)
MechDump(filename, h5) ==
    LET ends  == EndsFmt(filename)
        fname == IF ends THEN SplitRoot(filename) ELSE filename
        fn2   == IF ends THEN filename ELSE fname \o DotHdf
        fmt   == IF HasSuffix(fn2, <<"h", "d", "f", "5">>) /\ h5 THEN "hdf5"
                 ELSE "npz"
    IN [path |-> fname \o <<".">> \o SubSeq(ExtOf(fmt), 2, Len(ExtOf(fmt))),
        fmt |-> fmt]

\* utils.get_files(dirname, fname): glob(dir/"<fname>*.*"), keep names that
\* end in hdf5/npz, sort by int(text after the last "_" of splitext()[0])
BaseName(p) == SubSeq(p, LastIndex(p, "/") + 1, Len(p))
DirName(p) == SubSeq(p, 1, LastIndex(p, "/") - 1)
HasPrefix(s, x) == Len(s) >= Len(x) /\ SubSeq(s, 1, Len(x)) = x
GlobMatch(b, fname) ==      \* b matches "<fname>*.*"
    HasPrefix(b, fname) /\ \E i \in (Len(fname) + 1)..Len(b) : b[i] = "."
SortKey(p) == LET a == SplitRoot(p)
              IN Val(SubSeq(a, LastIndex(a, "_") + 1, Len(a)))
SortByKey(S) ==
    LET n == Cardinality(S)
        Rank(f) == Cardinality({g \in S : SortKey(g) <= SortKey(f)})
    IN [k \in 1..n |-> CHOOSE f \in S : Rank(f) = k]
MechGetFiles(files, dir, fname) ==
    SortByKey({f \in files : /\ DirName(f) = dir
                              /\ GlobMatch(BaseName(f), fname)
                              /\ EndsFmt(f)})

\* ---- exploration -----------------------------------------------------------
NoRun == [none |-> TRUE]
Init == \/ /\ kind = "name" /\ name \in FNames /\ run = NoRun
        \/ /\ kind = "run" /\ name = <<>>
           /\ run \in [dir : Dirs, base : Bases, ext : {<<>>, DotNpz, DotHdf},
                       counts : (SUBSET Counts) \ {{}}]
Next == UNCHANGED <<kind, name, run>>
Spec == Init /\ [][Next]_<<kind, name, run>>

\* the name logic of dump is the specified mapping - except for the recorded
\* finding (format suffix tested without the dot)
DumpNameOK ==
    kind = "name" => (MechDump(name, H5) = FileOf(name, H5) \/ SuffixNoDot(name, H5))
\* ... and the finding is real: such a name never maps correctly
FindingIsExact ==
    kind = "name" /\ SuffixNoDot(name, H5) => MechDump(name, H5) # FileOf(name, H5)

RunFiles == {SolverFile(run.dir, run.base, c, run.ext, H5).path : c \in run.counts}
\* Solver names are never affected, the mapping is injective in the count,
\* the count can be read back, discovery returns the run in count order
SolverNamesOK ==
    kind = "run" =>
      \A c \in run.counts :
        LET nm == SolverName(run.dir, run.base, c, run.ext)
            f  == FileOf(nm, H5)
        IN /\ MechDump(nm, H5) = f
           /\ IsDigits(CountField(f.path)) /\ Val(CountField(f.path)) = c
           /\ \A c2 \in run.counts :
                SolverFile(run.dir, run.base, c2, run.ext, H5).path = f.path
                  => c2 = c
DiscoveryOK ==
    kind = "run" =>
      LET n  == Cardinality(run.counts)
          cs == CHOOSE q \in [1..n -> run.counts] :
                  \A i, j \in 1..n : i < j => q[i] < q[j]
          r  == [h5 |-> H5, counts |-> cs,
                 names |-> [i \in 1..n |->
                              SolverName(run.dir, run.base, cs[n + 1 - i], run.ext)]]
          rr == [r EXCEPT !.counts = [i \in 1..n |-> cs[n + 1 - i]]]
      IN MechGetFiles(RunFiles, run.dir, run.base) = InCountOrder(rr)
=============================================================================
