---------------------------- MODULE TraceSolver ----------------------------
(***************************************************************************)
(* Validates logs recorded from the real Solver.solve() (checks/c10_driver) *)
(* A batch file holds one trace per line.  For every trace:                *)
(*   P: Failed(T.log, ..) - the clauses of the property layer that the     *)
(*      real log violates (this is the verdict);                           *)
(*   M: for exact (tick-valued) runs the mechanism model is run on the     *)
(*      same inputs and must produce the same log (drift detection).       *)
(* A trace may be the second call of solve() on a solver that max_steps    *)
(* stopped (t0, c0 # 0): only P applies to it.                             *)
(* Results are accumulated in TLC registers, one per trace, and printed by *)
(* the POSTCONDITION.                                                      *)
(***************************************************************************)
EXTENDS Solver, Json, IOUtils, TLCExt, SequencesExt

Traces == ndJsonDeserialize(IOEnv.TRACE_FILE)
VARIABLE tid
T == Traces[tid]
TIn(x) == [tf |-> x.tf, dt0 |-> x.dt0, pfreq |-> x.pfreq, outs |-> ToSet(x.outs),
           maxsteps |-> x.maxsteps, t0 |-> x.t0, c0 |-> x.c0,
           norec |-> x.norec]

Verdict(x) ==
    LET f == Failed(x.log, TIn(x), x.e)
        fm == Failed(x.log, Masked(x.log, TIn(x), x.e), x.e)
    IN [id |-> x.id, failed |-> f, failed_masked |-> fm,
        known |-> KnownFirstStep(x.log, TIn(x), x.e)]

TInit ==
    /\ tid \in 1..Len(Traces)
    /\ tf = T.tf /\ dt0 = T.dt0 /\ pfreq = T.pfreq /\ outs = ToSet(T.outs)
    /\ ndamp = T.ndamp /\ adaptive = T.adaptive /\ props = T.props
    /\ maxsteps = T.maxsteps
    /\ StartState
    /\ TLCSet(tid, [v |-> Verdict(T), m |-> 0, done |-> FALSE])

TNext == T.exact /\ Next /\ UNCHANGED tid

\* CONSTRAINT: follow the mechanism only while it agrees with the real log
Track ==
    /\ IsPrefix(log, T.log)
    /\ LET r == TLCGet(tid)
       IN IF r.m <= Len(log)
          THEN TLCSet(tid, [r EXCEPT !.m = Len(log),
                                     !.done = (pc = "done" /\ log = T.log)])
          ELSE TRUE

Report ==
    \A i \in 1..Len(Traces) :
        PrintT(<<"VERDICT", ToJson(TLCGet(i))>>)
=============================================================================
