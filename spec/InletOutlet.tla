----------------------------- MODULE InletOutlet -----------------------------
(***************************************************************************)
(* Inlets and outlets move each particle across exactly once (C16).        *)
(*                                                                         *)
(* 1-D abstraction along the flow direction.  A particle row is            *)
(*   [id, s, t1, t2, a, b, tag]                                            *)
(* id: identity carried by the particle; s: signed position along the flow *)
(* direction measured from the inlet plane; t1, t2: transverse             *)
(* coordinates; a, b: two copied property values (all integers, lattice    *)
(* units); tag: 0 Local, 1 Remote, 2 Ghost.  A state is                    *)
(* [inlet, fluid, outlet, nreal]: three sequences of rows in array order   *)
(* and the three num_real_particles.  The particles of the statement are   *)
(* the rows of the real range 1..nreal (RealOf); their order is never      *)
(* constrained, but every array must be Aligned after an update: exactly   *)
(* the Local rows form the real range, so a particle that entered is seen  *)
(* by the solver and a ghost/remote row never is.  Non-local rows (copies  *)
(* owned by a periodic boundary or another process) are not particles of   *)
(* the statement: they must not be duplicated, promoted or altered (one    *)
(* lying past a plane may also be dropped or passed on as non-local).      *)
(* Geometry g = [Lin, X, Lout, copyq, active, slack]:       *)
(*   inlet zone  [-Lin, 0)      fluid  s >= 0                              *)
(*   outlet plane at X          outlet zone [X, X + Lout)                  *)
(* copyq: whether b is among the properties an outlet copies; active: the  *)
(* solver stages at which update() acts; slack: 0 (exact) - it is 1 only   *)
(* when a known finding re-evaluates a trace with the zone lengths the     *)
(* implementation computed, which are not lattice values.                  *)
(*                                                                         *)
(* A call is [kind, stage, ok, before, after]: one InletBase.update        *)
(* ("in") or OutletBase.update ("out") with the states of all three arrays *)
(* before and after.  Identities are unique in `before` (the harness gives *)
(* a recycled inlet original a fresh identity between calls).  When one    *)
(* manager drives several inlets/outlets on one fluid array, every zone    *)
(* has its own trace in its own frame and geometry, and the updates of the *)
(* other zones appear in it as calls of kind "other".                      *)
(*                                                                         *)
(* (P) property layer: Failed(g, c) - the clauses of the statement one     *)
(*     call breaks - and HFailed(g, calls) over a whole history (count     *)
(*     equation, each identity moves inlet -> fluid -> outlet -> deleted   *)
(*     only forwards and never reappears).  A particle exactly on a plane  *)
(*     may go either way; a fluid particle carried beyond the far end of   *)
(*     the outlet zone in one step may be absorbed or deleted at once.     *)
(* (M) mechanism layer: MInlet / MOutlet shaped like the code: evaluate    *)
(*     the zone id, extract by index, append to the destination, recycle   *)
(*     in place / remove by swap-with-last.                                *)
(* Design check (bottom): M => P on all histories of a small instance and  *)
(* from every small pre-state (inductive step).                            *)
(***************************************************************************)
EXTENDS Integers, Sequences, FiniteSets, TLC

Range(q) == {q[k] : k \in DOMAIN q}
Ids(q) == {q[k].id : k \in DOMAIN q}
Cnt(q, i) == Cardinality({k \in DOMAIN q : q[k].id = i})
RowOf(q, i) == q[CHOOSE k \in DOMAIN q : q[k].id = i]
Abs(n) == IF n < 0 THEN -n ELSE n
AllIds(st) == Ids(st.inlet) \cup Ids(st.fluid) \cup Ids(st.outlet)
NRows(st) == Len(st.inlet) + Len(st.fluid) + Len(st.outlet)
Unique(st) == NRows(st) = Cardinality(AllIds(st))
Min(x, y) == IF x < y THEN x ELSE y
\* the particles the solver sees: the real range of every array
RealOf(st) == [inlet  |-> SubSeq(st.inlet, 1, Min(st.nreal[1], Len(st.inlet))),
               fluid  |-> SubSeq(st.fluid, 1, Min(st.nreal[2], Len(st.fluid))),
               outlet |-> SubSeq(st.outlet, 1, Min(st.nreal[3], Len(st.outlet)))]
NL(q) == SelectSeq(q, LAMBDA r : r.tag # 0)
NLOf(st) == [inlet |-> NL(st.inlet), fluid |-> NL(st.fluid), outlet |-> NL(st.outlet)]
\* all Local rows first, and num_real_particles counts exactly them
AlignedArr(q, n) == n \in 0..Len(q) /\ \A k \in DOMAIN q : (k <= n) <=> (q[k].tag = 0)
Aligned(st) == /\ AlignedArr(st.inlet, st.nreal[1]) /\ AlignedArr(st.fluid, st.nreal[2])
               /\ AlignedArr(st.outlet, st.nreal[3])

-----------------------------------------------------------------------------
(* (P) property layer *)
Near(g, u, v) == Abs(u - v) <= g.slack
Shifted(g, r, r2, d) ==
    /\ r2.id = r.id /\ Near(g, r.s + d, r2.s)
    /\ Near(g, r.t1, r2.t1) /\ Near(g, r.t2, r2.t2)
    /\ r2.a = r.a /\ r2.b = r.b /\ r2.tag = r.tag
Same(g, r, r2) == Shifted(g, r, r2, 0)
\* what an outlet must preserve of an absorbed fluid particle
SameView(g, r, r2) ==
    /\ r2.id = r.id /\ Near(g, r.s, r2.s)
    /\ Near(g, r.t1, r2.t1) /\ Near(g, r.t2, r2.t2)
    /\ r2.a = r.a /\ (g.copyq => r2.b = r.b) /\ r2.tag = r.tag
\* every row of q1 (unique ids) is exactly once and unchanged in q2, nothing else
BagSame(g, q1, q2) ==
    /\ Len(q1) = Len(q2)
    /\ \A r \in Range(q1) : Cnt(q2, r.id) = 1 /\ Same(g, r, RowOf(q2, r.id))

\* zones; within `slack` of a plane counts as on the plane
MustEnter(g, r) == r.s > g.slack                  \* inlet particle past the plane
MayEnter(g, r)  == r.s >= -g.slack
MustLeave(g, r) == r.s - g.X > g.slack            \* fluid particle past the outlet plane
MayLeave(g, r)  == r.s - g.X >= -g.slack
Far(g) == g.X + g.Lout
MustDelete(g, r) == r.s - Far(g) > g.slack        \* past the far end
MayDelete(g, r)  == r.s - Far(g) >= -g.slack

\* -- InletBase.update at an active stage
InletCopy(g, b, a) ==       \* exactly once in the fluid, nobody else
    \A r \in Range(b.inlet) :
        LET c == Cnt(a.fluid, r.id)
        IN c <= 1 /\ (MustEnter(g, r) => c = 1) /\ (~MayEnter(g, r) => c = 0)
InletProps(g, b, a) ==      \* the copy equals the original
    \A r \in Range(b.inlet) :
        Cnt(a.fluid, r.id) = 1 => Same(g, r, RowOf(a.fluid, r.id))
InletRecycle(g, b, a) ==    \* original stays an inlet particle, one zone length upstream
    \A r \in Range(b.inlet) :
        /\ Cnt(a.inlet, r.id) = 1
        /\ LET r2 == RowOf(a.inlet, r.id)
           IN IF Cnt(a.fluid, r.id) >= 1 THEN Shifted(g, r, r2, -g.Lin)
              ELSE Same(g, r, r2)
InletFrame(g, b, a) ==      \* nothing else created, lost, moved or changed
    /\ Len(a.inlet) = Len(b.inlet)
    /\ \A r \in Range(b.fluid) :
          Cnt(a.fluid, r.id) = 1 /\ Same(g, r, RowOf(a.fluid, r.id))
    /\ Ids(a.fluid) \subseteq Ids(b.fluid) \cup Ids(b.inlet)
    /\ BagSame(g, b.outlet, a.outlet)

\* -- OutletBase.update at an active stage
OutletMove(g, b, a) ==
    \A r \in Range(b.fluid) :
        LET cf == Cnt(a.fluid, r.id)
            co == Cnt(a.outlet, r.id)
        IN /\ cf + co <= 1
           /\ (cf + co = 0) => MayDelete(g, r) /\ MayLeave(g, r)
           /\ ~MayLeave(g, r) => cf = 1
           /\ MustLeave(g, r) => cf = 0
OutletProps(g, b, a) ==
    \A r \in Range(b.fluid) :
        /\ Cnt(a.fluid, r.id) = 1 => Same(g, r, RowOf(a.fluid, r.id))
        /\ Cnt(a.outlet, r.id) = 1 => SameView(g, r, RowOf(a.outlet, r.id))
OutletDelete(g, b, a) ==
    \A r \in Range(b.outlet) :
        LET c == Cnt(a.outlet, r.id)
        IN /\ c <= 1 /\ Cnt(a.fluid, r.id) = 0
           /\ MustDelete(g, r) => c = 0
           /\ ~MayDelete(g, r) => c = 1
           /\ c = 1 => Same(g, r, RowOf(a.outlet, r.id))
OutletFrame(g, b, a) ==
    /\ BagSame(g, b.inlet, a.inlet)
    /\ Ids(a.fluid) \subseteq Ids(b.fluid)
    /\ Ids(a.outlet) \subseteq Ids(b.outlet) \cup Ids(b.fluid)

\* particles that entered / left the fluid in a call, as observed
\* (v: a call whose before/after are the real ranges, View(c))
View(c) == [c EXCEPT !.before = RealOf(@), !.after = RealOf(@)]
EnteredV(v) == Cardinality({i \in Ids(v.before.inlet) : Cnt(v.after.fluid, i) >= 1})
LeftV(v)    == Cardinality({i \in Ids(v.before.fluid) : Cnt(v.after.fluid, i) = 0})
DeletedV(v) == Cardinality(AllIds(v.before) \ AllIds(v.after))
Entered(c) == EnteredV(View(c))
Left(c) == LeftV(View(c))
Deleted(c) == DeletedV(View(c))
\* change of the number of fluid particles accounted for by a call
NetStep(v) == IF v.kind = "other" THEN Len(v.after.fluid) - Len(v.before.fluid)
              ELSE EnteredV(v) - LeftV(v)
CountStep(v) == Len(v.after.fluid) = Len(v.before.fluid) + EnteredV(v) - LeftV(v)

\* -- non-local rows (nb, na: NLOf of the states; rb, ra: the real ranges)
NLIds(n) == Ids(n.inlet) \cup Ids(n.fluid) \cup Ids(n.outlet)
NLBase(nb, na, rb, ra) ==      \* no promotion, no demotion, no creation
    /\ NLIds(nb) \cap AllIds(ra) = {}
    /\ AllIds(rb) \cap NLIds(na) = {}
    /\ NLIds(na) \subseteq NLIds(nb)
NLInlet(g, nb, na) ==
    /\ BagSame(g, nb.outlet, na.outlet)
    /\ \A r \in Range(nb.fluid) :
          Cnt(na.fluid, r.id) = 1 /\ Same(g, r, RowOf(na.fluid, r.id))
    /\ \A r \in Range(nb.inlet) :
          /\ Cnt(na.inlet, r.id) = 1
          /\ Cnt(na.fluid, r.id) <= 1 /\ Cnt(na.outlet, r.id) = 0
          /\ LET r2 == RowOf(na.inlet, r.id)
             IN \/ Same(g, r, r2)
                \/ MayEnter(g, r) /\ Shifted(g, r, r2, -g.Lin)
          /\ Cnt(na.fluid, r.id) = 1 =>
                MayEnter(g, r) /\ Same(g, r, RowOf(na.fluid, r.id))
NLOutlet(g, nb, na) ==
    /\ BagSame(g, nb.inlet, na.inlet)
    /\ \A r \in Range(nb.fluid) :
          LET cf == Cnt(na.fluid, r.id)
              co == Cnt(na.outlet, r.id)
          IN /\ cf + co <= 1 /\ Cnt(na.inlet, r.id) = 0
             /\ cf = 1 => Same(g, r, RowOf(na.fluid, r.id))
             /\ co = 1 => MayLeave(g, r) /\ SameView(g, r, RowOf(na.outlet, r.id))
             /\ cf + co = 0 => MayLeave(g, r)
    /\ \A r \in Range(nb.outlet) :
          LET c == Cnt(na.outlet, r.id)
          IN /\ c <= 1 /\ Cnt(na.fluid, r.id) = 0
             /\ c = 1 => Same(g, r, RowOf(na.outlet, r.id))
             /\ c = 0 => MayDelete(g, r)
NLUnchanged(g, nb, na) ==
    BagSame(g, nb.inlet, na.inlet) /\ BagSame(g, nb.fluid, na.fluid)
    /\ BagSame(g, nb.outlet, na.outlet)

Unchanged(g, b, a) ==
    BagSame(g, b.inlet, a.inlet) /\ BagSame(g, b.fluid, a.fluid)
    /\ BagSame(g, b.outlet, a.outlet)

Pick(cond, name) == IF cond THEN {} ELSE {name}

\* the clauses of the statement broken by one call
Failed(g, c) ==
    IF ~c.ok THEN {"Returns"}
    ELSE IF ~Unique(c.before) \/ ~Aligned(c.before) THEN {"HarnessNotUnique"}
    ELSE LET b == RealOf(c.before)      \* the particles: real ranges
             a == RealOf(c.after)
             nb == NLOf(c.before)       \* the non-local rows
             na == NLOf(c.after)
             v == [c EXCEPT !.before = b, !.after = a]
         IN Pick(Aligned(c.after), "Aligned")
            \cup Pick(NLBase(nb, na, b, a), "NonLocalRows")
            \cup
            IF c.kind = "other"
            \* an update of ANOTHER inlet/outlet managed together with this
            \* one and sharing the fluid array: it may change the fluid (its
            \* own trace judges how) but not this zone's inlet and outlet
            THEN Pick(/\ BagSame(g, b.inlet, a.inlet) /\ BagSame(g, b.outlet, a.outlet)
                      /\ BagSame(g, nb.inlet, na.inlet) /\ BagSame(g, nb.outlet, na.outlet),
                      "NothingElse")
            ELSE IF c.stage \notin g.active
            THEN Pick(Unchanged(g, b, a) /\ NLUnchanged(g, nb, na), "StageFilter")
            ELSE IF c.kind = "in"
            THEN Pick(InletCopy(g, b, a), "InletCopy")
                 \cup Pick(InletProps(g, b, a), "InletProps")
                 \cup Pick(InletRecycle(g, b, a), "InletRecycle")
                 \cup Pick(InletFrame(g, b, a), "NothingElse")
                 \cup Pick(CountStep(v), "Count")
                 \cup Pick(NLInlet(g, nb, na), "NonLocalRows")
            ELSE Pick(OutletMove(g, b, a), "OutletMove")
                 \cup Pick(OutletProps(g, b, a), "OutletProps")
                 \cup Pick(OutletDelete(g, b, a), "OutletDelete")
                 \cup Pick(OutletFrame(g, b, a), "NothingElse")
                 \cup Pick(CountStep(v), "Count")
                 \cup Pick(NLOutlet(g, nb, na), "NonLocalRows")

\* -- over a history (sequence of calls; these operators take the Views)
Rank(st, i) == IF i \in Ids(st.outlet) THEN 2 ELSE IF i \in Ids(st.fluid) THEN 1 ELSE 0
Net(calls) ==   \* entered - left after each call
    LET F[k \in 0..Len(calls)] ==
          IF k = 0 THEN 0 ELSE F[k - 1] + NetStep(calls[k])
    IN F
\* identities deleted by the calls before call k
GoneBefore(calls) ==
    LET F[k \in 1..(Len(calls) + 1)] ==
          IF k = 1 THEN {}
          ELSE F[k - 1] \cup (AllIds(calls[k - 1].before) \ AllIds(calls[k - 1].after))
    IN F
Hist(calls) == [net |-> Net(calls), goneb |-> GoneBefore(calls)]
\* |fluid| = initial + entered - left
CountHistory(calls, h, k) ==
    Len(calls[k].after.fluid) = Len(calls[1].before.fluid) + h.net[k]
\* forwards only, and a deleted identity never comes back
ExactlyOnce(calls, h, k) ==
    LET b == calls[k].before
        a == calls[k].after
    IN /\ \A i \in AllIds(b) \cap AllIds(a) : Rank(a, i) >= Rank(b, i)
       /\ h.goneb[k] \cap AllIds(a) = {}
\* what the harness does between two calls: advects and renames recycled
\* inlet originals; it never changes membership, copied values or counts
LinkOK(a, b) ==
    /\ a.nreal = b.nreal
    /\ Len(a.inlet) = Len(b.inlet) /\ Len(a.fluid) = Len(b.fluid)
    /\ Len(a.outlet) = Len(b.outlet)
    /\ Ids(a.fluid) = Ids(b.fluid) /\ Ids(a.outlet) = Ids(b.outlet)
    /\ \A r \in Range(a.fluid) : Cnt(b.fluid, r.id) = 1 /\ RowOf(b.fluid, r.id).a = r.a
Links(calls) == \A k \in 2..Len(calls) : LinkOK(calls[k - 1].after, calls[k].before)

\* the clauses broken at call k of a history (h = Hist(calls)), and over the
\* whole history
Views(calls) == [k \in DOMAIN calls |-> View(calls[k])]
HFailedAtH(g, calls, vs, h, k) ==
    {<<k, n>> : n \in Failed(g, calls[k])}
    \cup (IF calls[k].ok /\ ~CountHistory(vs, h, k) THEN {<<k, "CountHistory">>} ELSE {})
    \cup (IF calls[k].ok /\ ~ExactlyOnce(vs, h, k) THEN {<<k, "ExactlyOnce">>} ELSE {})
HFailedAt(g, calls, k) ==
    LET vs == Views(calls) IN HFailedAtH(g, calls, vs, Hist(vs), k)
HFailed(g, calls) ==
    LET vs == Views(calls)
        h == Hist(vs)
    IN UNION {HFailedAtH(g, calls, vs, h, k) : k \in DOMAIN calls}

-----------------------------------------------------------------------------
(* (M) mechanism layer: the update() methods as written *)
FarFluid == 1000000       \* IOEvaluate's default maxdist (1000 length units) for the
                          \* fluid array: beyond every generated position
IoId(d, maxd) == IF d > 0 /\ d <= maxd THEN 1 ELSE IF d > maxd THEN 2 ELSE 0
SelIdx(q, T(_)) == SelectSeq([k \in 1..Len(q) |-> k], LAMBDA k : T(q[k]))
Gather(q, idx) == [j \in 1..Len(idx) |-> q[idx[j]]]
\* remove_particles: from the largest index down, overwrite with the last, shrink
RemoveRows(q, S) ==
    LET R[T \in SUBSET S] ==
          IF T = {} THEN q
          ELSE LET i == CHOOSE x \in T : \A y \in T : x <= y
                   p == R[T \ {i}]
               IN SubSeq([p EXCEPT ![i] = p[Len(p)]], 1, Len(p) - 1)
    IN R[S]

\* align_particles: the index-array algorithm (a Local row found behind a
\* non-local one is swapped with the first non-local row), then the gather
AlignIndex(q) ==
    LET n == Len(q)
        F[i \in 0..n] ==
          IF i = 0 THEN [ia |-> [k \in 1..n |-> 0], ni |-> 1]
          ELSE LET p == F[i - 1]
               IN IF q[i].tag = 0
                  THEN IF i # p.ni
                       THEN [ia |-> [p.ia EXCEPT ![p.ni] = i, ![i] = p.ia[p.ni]],
                             ni |-> p.ni + 1]
                       ELSE [ia |-> [p.ia EXCEPT ![i] = i], ni |-> p.ni + 1]
                  ELSE [ia |-> [p.ia EXCEPT ![i] = i], ni |-> p.ni]
    IN F[n].ia
AlignRows(q) == LET ia == AlignIndex(q) IN [i \in 1..Len(q) |-> q[ia[i]]]
NLocal(q) == Cardinality({k \in DOMAIN q : q[k].tag = 0})

\* x = pa.x is the real range only: non-local rows are never selected
MInlet(g, st) ==
    LET nr == st.nreal[1]
        idx == SelIdx(SubSeq(st.inlet, 1, nr), LAMBDA r : IoId(-r.s, g.Lin) = 0)
        S == Range(idx)
        fl == AlignRows(st.fluid \o Gather(st.inlet, idx))   \* extract, align
    IN [inlet |-> [k \in DOMAIN st.inlet |->
                     IF k \in S THEN [st.inlet[k] EXCEPT !.s = @ - g.Lin]
                     ELSE st.inlet[k]],
        fluid |-> fl,
        outlet |-> st.outlet,
        nreal |-> <<nr, NLocal(fl), st.nreal[3]>>]
MOutlet(g, st) ==
    LET idx == SelIdx(SubSeq(st.fluid, 1, st.nreal[2]),
                      LAMBDA r : IoId(r.s - g.X, FarFluid) = 1)
        old == Ids(SubSeq(st.outlet, 1, st.nreal[3]))
        mv  == [j \in 1..Len(idx) |->
                  IF g.copyq THEN st.fluid[idx[j]]
                  ELSE [st.fluid[idx[j]] EXCEPT !.b = 0]]
        o1  == AlignRows(st.outlet \o mv)                     \* extract, align
        \* ioid of the outlet rows was evaluated before the transfer; the
        \* absorbed rows carry the fluid's value (1) or the default (0)
        del == {k \in 1..NLocal(o1) : o1[k].id \in old /\
                                      IoId(o1[k].s - g.X, g.Lout) = 2}
        fl == AlignRows(RemoveRows(st.fluid, Range(idx)))
        ou == AlignRows(RemoveRows(o1, del))
    IN [inlet |-> st.inlet, fluid |-> fl, outlet |-> ou,
        nreal |-> <<st.nreal[1], NLocal(fl), NLocal(ou)>>]
MUpdate(g, kind, stage, st) ==
    IF stage \notin g.active THEN st
    ELSE IF kind = "in" THEN MInlet(g, st) ELSE MOutlet(g, st)

\* does an observed call differ from the mechanism (order and, when b is not
\* copied, the b of absorbed particles are not compared)
Blank(g, q) == IF g.copyq THEN q ELSE [k \in DOMAIN q |-> [q[k] EXCEPT !.b = 0]]
BagEq(q1, q2) ==
    /\ Len(q1) = Len(q2)
    /\ \A v \in Range(q1) \cup Range(q2) :
          Cardinality({k \in DOMAIN q1 : q1[k] = v})
              = Cardinality({k \in DOMAIN q2 : q2[k] = v})
Drift(g, c) ==
    c.ok /\ c.kind # "other" /\ LET m == MUpdate(g, c.kind, c.stage, c.before)
            IN ~(/\ m.nreal = c.after.nreal
                 /\ BagEq(m.inlet, c.after.inlet) /\ BagEq(m.fluid, c.after.fluid)
                 /\ BagEq(Blank(g, m.outlet), Blank(g, c.after.outlet)))

-----------------------------------------------------------------------------
(* Design check.                                                           *)
(* Mode "hist": a fixed initial block (NIn inlet rows at -1..-NIn, NFl     *)
(* fluid rows at 0.., NOut outlet rows beyond X); Rounds rounds of: every  *)
(* particle is displaced by any element of Disp (one sub-step per          *)
(* particle, so any combination crosses together, back-flow included),     *)
(* then the two updates in either order at any stage of Stages.            *)
(* Mode "ind": the pre-state is ANY placement of NIn + NFl + NOut rows     *)
(* over the three arrays and the window Win, followed by one round of      *)
(* updates - the inductive step for "arbitrarily many update calls".       *)
(* Instances (spec/cfg/InletOutlet.*.cfg; every state is distinct because  *)
(* the history of calls is part of the state):                             *)
(*   ind    3 rows, window -3..5, stages {1,2}, both orders     189 540    *)
(*   ind4   4 rows, same                                      2 558 790    *)
(*   deep   1 inlet + 1 fluid, Disp -1..2, 3 rounds              397 205    *)
(*   histq  2 inlet + 1 fluid, Disp -1..2, 2 rounds, both orders 299 029    *)
(*   hist   2 inlet + 1 fluid + 1 outlet, Disp -1..2, 2 rounds 1 243 477    *)
(*   wide   3 inlet + 3 fluid, Lin 3, Disp -2..3, 1 round,                  *)
(*          stages {1,2}, both orders (wideq: stage 2, in-out)   662 515    *)
CONSTANTS Mode, NIn, NFl, NOut, LinC, XC, LoutC, Back, Fwd, Rounds, Stages,
          OrderNames, CopyQs, WinLo, WinHi, Mutant, Tags
Disp == (-Back)..Fwd                    \* per-particle displacements of one round
Win == (-WinLo)..WinHi                  \* positions of the "ind" pre-states
Orders == {o \in {<<"in", "out">>, <<"out", "in">>} :
              (o[1] = "in" /\ "io" \in OrderNames) \/ (o[1] = "out" /\ "oi" \in OrderNames)}

VARIABLES g, st, calls, phase, cursor, round, nextid, order, stage
vars == <<g, st, calls, phase, cursor, round, nextid, order, stage>>

MkRow(i, s) == [id |-> i, s |-> s, t1 |-> 0, t2 |-> 0, a |-> 100 + i,
                b |-> 200 + i, tag |-> 0]
\* an aligned array from rows of any tags
Arr(q) == SelectSeq(q, LAMBDA r : r.tag = 0) \o NL(q)
MkState(i, f, o) == [inlet |-> Arr(i), fluid |-> Arr(f), outlet |-> Arr(o),
                     nreal |-> <<NLocal(i), NLocal(f), NLocal(o)>>]
Geo(cq) == [Lin |-> LinC, X |-> XC, Lout |-> LoutC, copyq |-> cq,
            active |-> {2}, slack |-> 0]

HistInit ==
    st = MkState([k \in 1..NIn |-> MkRow(k, -k)],
                 [k \in 1..NFl |-> MkRow(NIn + k, k - 1)],
                 [k \in 1..NOut |-> MkRow(NIn + NFl + k, XC + k)])
IndInit ==
    LET N == NIn + NFl + NOut
        R(i, pos, tg) == [MkRow(i, pos[i]) EXCEPT !.tag = tg[i]]
    IN \E ni \in 0..N : \E nf \in 0..(N - ni) : \E pos \in [1..N -> Win] :
       \E tg \in [1..N -> Tags] :
          st = MkState([k \in 1..ni |-> R(k, pos, tg)],
                       [k \in 1..nf |-> R(ni + k, pos, tg)],
                       [k \in 1..(N - ni - nf) |-> R(ni + nf + k, pos, tg)])
Init ==
    /\ \E cq \in CopyQs : g = Geo(cq)
    /\ IF Mode = "hist" THEN HistInit ELSE IndInit
    /\ calls = <<>> /\ cursor = 1 /\ round = 1
    /\ nextid = NIn + NFl + NOut + 1
    /\ phase = IF Mode = "hist" THEN "adv" ELSE "pick"
    /\ order = <<>> /\ stage = 0

\* the k-th row over inlet \o fluid \o outlet is displaced by d
Bump(s, k, d) ==
    LET ni == Len(s.inlet)
        nf == Len(s.fluid)
    IN IF k <= ni THEN [s EXCEPT !.inlet[k].s = @ + d]
       ELSE IF k <= ni + nf THEN [s EXCEPT !.fluid[k - ni].s = @ + d]
       ELSE [s EXCEPT !.outlet[k - ni - nf].s = @ + d]
AdvectOne ==
    /\ phase = "adv" /\ cursor <= NRows(st)
    /\ \E d \in Disp : st' = Bump(st, cursor, d)
    /\ cursor' = cursor + 1
    /\ UNCHANGED <<g, calls, phase, round, nextid, order, stage>>
AdvectDone ==
    /\ phase = "adv" /\ cursor > NRows(st)
    /\ phase' = "pick"
    /\ UNCHANGED <<g, st, calls, cursor, round, nextid, order, stage>>
PickRound ==
    /\ phase = "pick"
    /\ \E o \in Orders, sg \in Stages : order' = o /\ stage' = sg
    /\ phase' = "u1"
    /\ UNCHANGED <<g, st, calls, cursor, round, nextid>>

\* the harness renames a recycled inlet original (its copy keeps the identity)
Relabel(s, nid) ==
    LET dup == {k \in DOMAIN s.inlet : s.inlet[k].id \in Ids(s.fluid)}
        new(k) == nid + Cardinality({j \in dup : j < k})
    IN [s EXCEPT !.inlet = [k \in DOMAIN s.inlet |->
            IF k \in dup THEN [MkRow(new(k), s.inlet[k].s) EXCEPT !.tag = s.inlet[k].tag]
            ELSE s.inlet[k]]]
NDup(s) == Cardinality({k \in DOMAIN s.inlet : s.inlet[k].id \in Ids(s.fluid)})

\* Mutant = "none": the mechanism as written.  "ties_other_way" decides every
\* particle exactly on a plane the other way (must still satisfy P).  The other
\* values are deliberately wrong mechanisms that P must reject (non-vacuity).
ShiftAll(s, d) ==
    LET sh(q) == [k \in DOMAIN q |-> [q[k] EXCEPT !.s = @ + d]]
    IN [inlet |-> sh(s.inlet), fluid |-> sh(s.fluid), outlet |-> sh(s.outlet),
        nreal |-> s.nreal]
DUpdate(kind, sg, s) ==
    CASE Mutant = "none" -> MUpdate(g, kind, sg, s)
      [] Mutant = "ties_other_way" ->
           \* evaluate the zone ids one unit further upstream (inlet) /
           \* downstream (outlet): s = 0 stays, s = X leaves, s = far end goes
           IF sg \notin g.active THEN s
           ELSE IF kind = "in"
           THEN LET m == MInlet(g, ShiftAll(s, -1))
                IN [ShiftAll(m, 1) EXCEPT !.outlet = s.outlet]
           ELSE LET m == MOutlet(g, ShiftAll(s, 1))
                IN [ShiftAll(m, -1) EXCEPT !.inlet = s.inlet]
      [] Mutant = "recycle_short" ->
           LET m == MUpdate(g, kind, sg, s)
           IN IF kind = "in" /\ sg \in g.active
              THEN [m EXCEPT !.inlet = [k \in DOMAIN m.inlet |->
                      IF m.inlet[k].s # s.inlet[k].s
                      THEN [m.inlet[k] EXCEPT !.s = @ + 1] ELSE m.inlet[k]]]
              ELSE m
      [] Mutant = "no_remove" ->
           LET m == MUpdate(g, kind, sg, s)
           IN IF kind = "out"
              THEN [m EXCEPT !.fluid = s.fluid, !.nreal[2] = s.nreal[2]] ELSE m
      [] Mutant = "keep_far" -> MUpdate([g EXCEPT !.Lout = 1000], kind, sg, s)
      [] Mutant = "ignore_stage" -> MUpdate(g, kind, 2, s)
      [] Mutant = "copy_all_inlet" ->
           LET m == MUpdate(g, kind, sg, s)
           IN IF kind = "in" /\ sg \in g.active
              THEN LET fl == AlignRows(s.fluid \o SubSeq(s.inlet, 1, s.nreal[1]))
                   IN [m EXCEPT !.fluid = fl, !.nreal[2] = NLocal(fl)]
              ELSE m
      [] Mutant = "no_align" ->
           \* extract_particles(..., align=False), num_real_particles bumped
           LET m == MUpdate(g, kind, sg, s)
           IN IF kind = "in" /\ sg \in g.active
              THEN [m EXCEPT !.fluid = s.fluid \o
                        SubSeq(m.fluid, s.nreal[2] + 1, m.nreal[2])]
              ELSE m
      [] Mutant = "drop_prop" ->
           LET m == MUpdate(g, kind, sg, s)
           IN IF kind = "in"
              THEN [m EXCEPT !.fluid = [k \in DOMAIN m.fluid |->
                      IF m.fluid[k].id \in Ids(s.inlet) THEN [m.fluid[k] EXCEPT !.b = 0]
                      ELSE m.fluid[k]]]
              ELSE m

DoCall(kind) ==
    LET post == DUpdate(kind, stage, st)
    IN /\ calls' = Append(calls, [kind |-> kind, stage |-> stage, ok |-> TRUE,
                                  before |-> st, after |-> post])
       /\ st' = Relabel(post, nextid)
       /\ nextid' = nextid + NDup(post)
Update1 ==
    /\ phase = "u1" /\ DoCall(order[1]) /\ phase' = "u2"
    /\ UNCHANGED <<g, cursor, round, order, stage>>
Update2 ==
    /\ phase = "u2" /\ DoCall(order[2])
    /\ round' = round + 1 /\ cursor' = 1
    /\ phase' = IF round < Rounds THEN "adv" ELSE "done"
    /\ UNCHANGED <<g, order, stage>>
Next == AdvectOne \/ AdvectDone \/ PickRound \/ Update1 \/ Update2
Spec == Init /\ [][Next]_vars

JustCalled == Len(calls) > 0 /\ (phase \in {"u2", "done"} \/ (phase = "adv" /\ cursor = 1))
\* mechanism => property layer, on every call of every history
\* (every prefix of a history is itself visited, so judging the last call of
\* each visited history judges every call of every history)
MechanismMeetsProperty == JustCalled => HFailedAt(g, calls, Len(calls)) = {}
\* identities stay unique, so "exactly once" is meaningful
UniqueIds == Unique(st)
\* the link relation used to sanity-check recorded histories admits what the
\* modelled harness does
HarnessLinks == JustCalled /\ Len(calls) >= 2 =>
    LinkOK(calls[Len(calls) - 1].after, calls[Len(calls)].before)
FluidCount == JustCalled =>
    st.nreal[2] = calls[1].before.nreal[2] + Net(Views(calls))[Len(calls)]
=============================================================================
