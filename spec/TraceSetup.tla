----------------------------- MODULE TraceSetup -----------------------------
(***************************************************************************)
(* Validates outcomes recorded from pysph's real set-up chain              *)
(* (checks/c20_driver.py).  A batch file holds one JSON object per line:   *)
(*   line 1     the symtab event [type "symtab", table : Seq([sym, d, s,   *)
(*              deps])]: the table of precomputed symbols read from the    *)
(*              source text of pysph.sph.equation.precomputed_symbols()    *)
(*   others     [type "case", id, ...the case (Setup.tla; sets as          *)
(*              sequences)..., known_ids, out : [k, stage, tokens, ...]]   *)
(* For the symtab event TLC compares the recorded table with SymTab, the   *)
(* transcription in Setup.tla (tabdiff # {} is reported as MODEL-DRIFT by  *)
(* the check).  For every case the property layer of Setup.tla is          *)
(* evaluated on the recorded outcome - with the RECORDED table, which is   *)
(* what the generated code reads - giving the violated clauses (`failed`), *)
(* the known findings that explain them (`known`, only ids listed in       *)
(* known_ids, i.e. of status "known" in known_findings.json) and the       *)
(* mechanism variants that predict the recorded outcome (`mech`; {} =      *)
(* drift).  Results are accumulated in TLC registers and printed by the    *)
(* POSTCONDITION.                                                          *)
(***************************************************************************)
EXTENDS Setup, Json, IOUtils, TLCExt

Traces == ndJsonDeserialize(IOEnv.TRACE_FILE)
VARIABLE tid

RealTab == TabOf(Traces[1].table)

AbsEq(e) == [name |-> e.name, dest |-> e.dest, sources |-> e.sources,
             d |-> Range(e.d), s |-> Range(e.s), syms |-> Range(e.syms)]
AbsCase(x) ==
    [api |-> x.api, structure |-> x.structure,
     arrays |-> [i \in DOMAIN x.arrays |->
                   [name |-> x.arrays[i].name,
                    props |-> Range(x.arrays[i].props)]],
     eqs |-> [i \in DOMAIN x.eqs |-> AbsEq(x.eqs[i])],
     steppers |-> [i \in DOMAIN x.steppers |->
                     [array |-> x.steppers[i].array,
                      name |-> x.steppers[i].name,
                      d |-> Range(x.steppers[i].d)]]]
OutOf(x) == [k |-> x.out.k, stage |-> x.out.stage,
             tokens |-> Range(x.out.tokens)]

TVerdict(x) ==
    IF x.type = "symtab"
    THEN [id |-> x.id, type |-> "symtab",
          tabdiff |-> TabDiff(SymTab, TabOf(x.table)),
          nsyms |-> Cardinality(DOMAIN TabOf(x.table))]
    ELSE [type |-> "case"] @@
         Verdict(x.id, RealTab, AbsCase(x), OutOf(x), Range(x.known_ids))

TInit == tid \in 1 .. Len(Traces) /\ TLCSet(tid, TVerdict(Traces[tid]))
TNext == FALSE /\ tid' = tid

Report ==
    \A i \in 1 .. Len(Traces) :
        PrintT(<<"VERDICT", ToJson(TLCGet(i))>>)
=============================================================================
