------------------------ MODULE TraceParticleArray ------------------------
(***************************************************************************)
(* Validates histories recorded from real ParticleArray objects            *)
(* (checks/c06_driver.py).  Every event carries the operation, its         *)
(* arguments and the full projection of the arrays after the call; the     *)
(* step from the previous logged state must satisfy the operation's        *)
(* relation of ParticleArray.tla and every array must be well formed.      *)
(***************************************************************************)
EXTENDS ParticleArray, Json, IOUtils, TLCExt

Traces == ndJsonDeserialize(IOEnv.TRACE_FILE)
VARIABLES tid, l, st
T == Traces[tid]

SetOf(q) == {q[i] : i \in DOMAIN q}
Idx1(q) == {q[i] + 1 : i \in DOMAIN q}
Seq1(q) == [i \in DOMAIN q |-> q[i] + 1]
Conv(x) == [type |-> x.type, stride |-> x.stride, dflt |-> x.dflt,
            len |-> x.len, data |-> x.data, consts |-> x.consts,
            outs |-> SetOf(x.outs), nreal |-> x.nreal]
ConvAll(p) == [a \in DOMAIN p |-> Conv(p[a])]
StateAt(x, k) == IF k = 0 THEN ConvAll(x.init) ELSE ConvAll(x.events[k].post)

Only(s, t, changed) == \A b \in DOMAIN s : b \notin changed => t[b] = s[b]

Rel(e, s, t) ==
    CASE e.op = "add_particles" ->
           AddParticles(s[e.a], e.k, e.given, e.align, t[e.a]) /\ Only(s, t, {e.a})
      [] e.op = "remove_particles" ->
           RemoveParticles(s[e.a], Idx1(e.idx), e.align, t[e.a]) /\ Only(s, t, {e.a})
      [] e.op = "remove_tagged" ->
           RemoveTagged(s[e.a], e.tag, e.align, t[e.a]) /\ Only(s, t, {e.a})
      [] e.op = "extend" ->
           Extend(s[e.a], e.k, t[e.a]) /\ Only(s, t, {e.a})
      [] e.op = "append_parray" ->
           AppendParray(s[e.a], s[e.b], e.align, t[e.a]) /\ Only(s, t, {e.a})
      [] e.op = "extract_new" ->
           LET ps == IF e.all THEN Names(s[e.a]) ELSE SetOf(e.props)
           IN ExtractInto(s[e.a], Seq1(e.idx), ps, CloneOf(s[e.a], ps, e.all),
                          e.align, t["R"]) /\ Only(s, t, {"R"})
      [] e.op = "extract_into" ->
           ExtractInto(s[e.a], Seq1(e.idx),
                       IF e.all THEN Names(s[e.a]) ELSE SetOf(e.props),
                       s[e.b], e.align, t[e.b]) /\ Only(s, t, {e.b})
      [] e.op = "empty_clone" ->
           EmptyClone(s[e.a], IF e.all THEN Names(s[e.a]) ELSE SetOf(e.props),
                      e.all, t["R"]) /\ Only(s, t, {"R"})
      [] e.op = "add_property" ->
           AddProperty(s[e.a], e.name, e.type, e.dflt, e.stride, e.hasdata,
                       e.data, t[e.a]) /\ Only(s, t, {e.a})
      [] e.op = "remove_property" ->
           RemoveProperty(s[e.a], e.name, t[e.a]) /\ Only(s, t, {e.a})
      [] e.op = "add_constant" ->
           AddConstant(s[e.a], e.name, e.data, t[e.a]) /\ Only(s, t, {e.a})
      [] e.op = "ensure_properties" ->
           EnsureProperties(s[e.a], s[e.b], SetOf(e.props), t[e.a]) /\ Only(s, t, {e.a})
      [] e.op = "set_constant" ->
           SetConstant(s[e.a], e.name, e.data, t[e.a]) /\ Only(s, t, {e.a})
      [] e.op = "resize_fill" ->
           ResizeFill(s[e.a], e.size, e.fill, t[e.a]) /\ Only(s, t, {e.a})
      [] e.op = "set_tag" ->
           SetTag(s[e.a], e.tag, Idx1(e.idx), t[e.a]) /\ Only(s, t, {e.a})
      [] e.op = "align" ->
           Align(s[e.a], t[e.a]) /\ Only(s, t, {e.a})
      [] e.op = "pickle" ->
           Pickle(s[e.a], t["R"]) /\ Only(s, t, {"R"})
      [] e.op = "copy_properties" ->
           CopyProperties(s[e.a], s[e.b], e.start, e.end, t[e.a]) /\ Only(s, t, {e.a})
      [] e.op = "set_outputs" ->
           SetOutputs(s[e.a], SetOf(e.names), t[e.a]) /\ Only(s, t, {e.a})
      [] e.op = "add_outputs" ->
           AddOutputs(s[e.a], SetOf(e.names), t[e.a]) /\ Only(s, t, {e.a})
      [] e.op = "set" ->
           SetProps(s[e.a], e.given, t[e.a]) /\ Only(s, t, {e.a})
      [] OTHER -> FALSE

AllWellFormed(s) == \A a \in DOMAIN s : WellFormed(s[a])

\* which clause of the property an event breaks (for the report only)
Diag(e, s, t) ==
    (IF \E a \in DOMAIN t : ~Rect(t[a]) THEN {"Rectangular"} ELSE {}) \cup
    (IF \E a \in DOMAIN t : Rect(t[a]) /\ ~MetaOK(t[a]) THEN {"MetaInStep"} ELSE {}) \cup
    (IF AllWellFormed(t) /\ ~Rel(e, s, t) THEN {"Relation:" \o e.op} ELSE {})

TInit == /\ tid \in 1..Len(Traces) /\ l = 1 /\ st = StateAt(T, 0)
         /\ TLCSet(tid, 0)

TNext == /\ l <= Len(T.events)
         /\ st' = StateAt(T, l)
         /\ AllWellFormed(st')
         /\ Rel(T.events[l], st, st')
         /\ l' = l + 1 /\ UNCHANGED tid

Track == IF TLCGet(tid) < l - 1 THEN TLCSet(tid, l - 1) ELSE TRUE

InitOK == AllWellFormed(st)

Report ==
    \A i \in 1..Len(Traces) :
      LET m == TLCGet(i)
          x == Traces[i]
      IN PrintT(<<"VERDICT", ToJson(
           [id |-> x.id, m |-> m, n |-> Len(x.events),
            why |-> IF m < Len(x.events)
                    THEN Diag(x.events[m + 1], StateAt(x, m), StateAt(x, m + 1))
                    ELSE {}])>>)
=============================================================================
