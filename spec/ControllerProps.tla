-------------------------- MODULE ControllerProps --------------------------
(***************************************************************************)
(* Property layer of C18 over an observed execution of the controller.     *)
(* A log is a sequence of records [ev, th, k, obj, id, ok]:                 *)
(*   ev = "call"/"ret": interface thread th starts/finishes API call k     *)
(*        (G get, Q queued command id, R get_result id, P pause_on_next,   *)
(*        W wait, C cont); ok: the result returned was the right one       *)
(*   ev = "exec": the queued command id was executed by thread th          *)
(*   ev = "cp_enter"/"cp_leave": the solver enters/leaves a control point  *)
(*   ev = "prim": synchronisation primitive k on object obj (k = "step":   *)
(*        the solver takes a time step; k = "test_pause": the solver       *)
(*        tested the pause set, obj = "yes"/"no")                          *)
(* An execution is the log, how it ended ("done", "deadlock", "limit") and *)
(* for each thread that did not finish the primitive it is blocked at.     *)
(***************************************************************************)
EXTENDS Integers, Sequences, FiniteSets

Range(f) == {f[i] : i \in DOMAIN f}

MInit == [incp |-> FALSE, paused |-> {}, inloop |-> FALSE, ex |-> {}, dl |-> {},
          q |-> {}, bad |-> {}]

Flag(c, name) == IF c THEN {name} ELSE {}

MStep(m, e) ==
    CASE e.ev = "cp_enter" -> [m EXCEPT !.incp = TRUE]
      [] e.ev = "cp_leave" ->
           [m EXCEPT !.incp = FALSE, !.inloop = FALSE,
                     !.bad = @ \cup Flag(m.paused # {}, "PauseHolds")]
      [] e.ev = "prim" /\ e.k = "step" ->
           [m EXCEPT !.bad = @ \cup Flag(m.paused # {}, "PauseHolds")]
      [] e.ev = "prim" /\ e.k = "test_pause" ->
           [m EXCEPT !.inloop = (e.obj = "yes")]
      [] e.ev = "call" /\ e.k = "Q" -> [m EXCEPT !.q = @ \cup {e.id}]
      [] e.ev = "exec" ->
           [m EXCEPT !.ex = @ \cup {e.id},
                     !.bad = @ \cup Flag(~m.incp \/ e.th # "S", "ExecAtControlPoint")
                               \cup Flag(e.id \in m.ex, "ExactlyOnce")
                               \cup Flag(e.id \notin m.q, "ExecUnqueued")]
      [] e.ev = "ret" /\ e.k = "R" ->
           [m EXCEPT !.dl = @ \cup {e.id},
                     !.bad = @ \cup Flag(e.id \notin m.ex, "ResultBeforeExec")
                               \cup Flag(~e.ok, "WrongResult")
                               \cup Flag(e.id \in m.dl, "DeliveredTwice")]
      [] e.ev = "ret" /\ e.k = "W" ->
           [m EXCEPT !.paused = @ \cup {e.th},
                     !.bad = @ \cup Flag(~m.incp \/ ~m.inloop,
                                         "WaitNotEarly")]
      [] e.ev = "call" /\ e.k = "C" -> [m EXCEPT !.paused = @ \ {e.th}]
      [] OTHER -> m

Monitor(log) ==
    LET F[i \in 0..Len(log)] == IF i = 0 THEN MInit ELSE MStep(F[i - 1], log[i])
    IN F[Len(log)]

LastIdx(log, P(_)) ==
    LET S == {i \in DOMAIN log : P(log[i])}
    IN IF S = {} THEN 0 ELSE CHOOSE i \in S : \A j \in S : j <= i

BlockedAt(x, th, k, obj) ==
    \E i \in DOMAIN x.blocked :
        x.blocked[i].th = th /\ x.blocked[i].kind = k /\ x.blocked[i].obj = obj
Ifaces(x) == {x.blocked[i].th : i \in DOMAIN x.blocked} \ {"S"}

(* Known findings: signatures of the recorded defects, as predicates over  *)
(* the final blocked configuration and the log.                            *)
\* C18-lost-wakeup: an interface thread entered the bare plock.wait() of
\* wait() after the solver had already done notify_all(plock) for this
\* pause; the solver sits in qlock.wait()
K_LostWakeup(x) ==
    /\ BlockedAt(x, "S", "cond_wake", "qlock")
    /\ \E i \in Ifaces(x) :
         LET notified == LastIdx(x.events, LAMBDA e : e.ev = "prim" /\ e.th = "S" /\
                                          e.k = "notify_all" /\ e.obj = "plock")
         IN /\ BlockedAt(x, i, "cond_wake", "plock")
            \* the solver did notify for this pause request ...
            /\ notified > LastIdx(x.events, LAMBDA e : e.ev = "call" /\ e.th = i /\
                                                      e.k = "P")
            \* ... but before the interface thread started to wait
            /\ LastIdx(x.events, LAMBDA e : e.ev = "prim" /\ e.th = i /\
                                          e.k = "cond_wait" /\ e.obj = "plock")
               > notified
\* C18-lock-order: solver holds qlock and wants plock (wait_for_cmd) while an
\* interface thread in cont() holds plock and wants qlock
K_LockOrder(x) ==
    /\ BlockedAt(x, "S", "acquire", "plock")
    /\ \E i \in Ifaces(x) : BlockedAt(x, i, "acquire", "qlock")
\* threads whose pause request is still outstanding at the end of the log
\* (pause_on_next called, no cont() completed since)
Outstanding(x) ==
    {th \in {x.events[i].th : i \in {j \in DOMAIN x.events :
                                       x.events[j].ev = "call" /\ x.events[j].k = "P"}} :
        LastIdx(x.events, LAMBDA e : e.ev = "call" /\ e.th = th /\ e.k = "P")
        > LastIdx(x.events, LAMBDA e : e.ev = "ret" /\ e.th = th /\ e.k = "C")}
\* C18-result-while-paused: get_result of a command queued while the solver
\* is parked in qlock.wait() because of a pause request that is still
\* outstanding (dispatch does not notify qlock)
K_ResultWhilePaused(x) ==
    /\ BlockedAt(x, "S", "cond_wake", "qlock")
    /\ Outstanding(x) # {}
    /\ \E i \in Ifaces(x) : \E j \in DOMAIN x.blocked :
         /\ x.blocked[j].th = i /\ x.blocked[j].kind = "acquire"
         /\ \E e \in Range(x.events) : e.ev = "call" /\ e.k = "R" /\ e.th = i
                                       /\ x.blocked[j].obj = "t" \o e.obj
    /\ \A i \in Ifaces(x) : ~BlockedAt(x, i, "cond_wake", "plock")

KnownBlock(x) ==
    Flag(K_LostWakeup(x), "C18-lost-wakeup") \cup
    Flag(K_LockOrder(x), "C18-lock-order") \cup
    Flag(K_ResultWhilePaused(x), "C18-result-while-paused")

\* C18-spurious-wait-return: with two interface threads, the notify() of
\* another thread's pause_on_next / cont wakes a thread inside wait()
K_SpuriousWake(x) ==
    \E i \in DOMAIN x.events :
        /\ x.events[i].ev = "ret" /\ x.events[i].k = "W"
        /\ LET th == x.events[i].th
               w == LastIdx(SubSeq(x.events, 1, i),
                            LAMBDA e : e.ev = "prim" /\ e.th = th /\
                                       e.k = "cond_wait" /\ e.obj = "plock")
           IN w > 0 /\ \E j \in w..i :    \* (w = 0: the thread never waited)
                /\ x.events[j].ev = "prim" /\ x.events[j].k = "notify"
                /\ x.events[j].obj = "plock" /\ x.events[j].th \notin {th, "S"}

Failed(x) ==
    Monitor(x.events).bad
    \cup Flag(x.outcome = "deadlock", "BlockedForever")
    \cup Flag(x.errors # <<>>, "Exception")
    \cup Flag(x.outcome = "done" /\ \E i \in DOMAIN x.done : ~x.done[i],
              "SolverGaveUp")

Verdict(x) ==
    [id |-> x.id, failed |-> Failed(x),
     known |-> (IF x.outcome = "deadlock" THEN KnownBlock(x) ELSE {}) \cup
               Flag(K_SpuriousWake(x), "C18-spurious-wait-return")]
=============================================================================
