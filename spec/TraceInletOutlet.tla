------------------------- MODULE TraceInletOutlet -------------------------
(***************************************************************************)
(* Validates histories recorded from the real InletBase / OutletBase       *)
(* objects (checks/c16_driver.py).  One JSON object per history:           *)
(*   id, g = {Lin, X, Lout, copyq, active}  nominal geometry (lattice),    *)
(*   code = {Lin, Lout, LinM, LoutM}  the zone lengths the implementation  *)
(*          holds (rounded to the logging unit; in 1/mpf of it),           *)
(*   naxes  number of non-zero components of the interface normal,         *)
(*   calls = [{kind, stage, ok, before, after}]  every update call with    *)
(*           the rows [id, s, t1, t2, a, b, tag] of the inlet, fluid and   *)
(*           outlet arrays in array order and nreal = the three            *)
(*           num_real_particles, before and after it;  or  crash / error.  *)
(* The verdict is the property layer of InletOutlet.tla evaluated on the   *)
(* recorded calls: failed = HFailed(g, calls).                             *)
(*                                                                         *)
(* Known finding C16-diagonal-length (signature): the interface normal is  *)
(* not parallel to a coordinate axis, the zone length held by the          *)
(* implementation differs from the extent of the zone along the normal,    *)
(* and the history satisfies every clause when judged with the             *)
(* implementation's own lengths (positions then compare to +-1 lattice     *)
(* unit because those lengths are not lattice values).                     *)
(***************************************************************************)
EXTENDS Integers, Sequences, FiniteSets, TLC, Json, IOUtils, TLCExt
Mode == "trace"  NIn == 0  NFl == 0  NOut == 0  LinC == 1  XC == 1  LoutC == 1
Back == 0  Fwd == 0  Rounds == 0  Stages == {}  OrderNames == {}  CopyQs == {}
WinLo == 0  WinHi == 0  Mutant == "none"  Tags == {}
VARIABLES g, st, calls, phase, cursor, round, nextid, order, stage
INSTANCE InletOutlet

Traces == ndJsonDeserialize(IOEnv.TRACE_FILE)
VARIABLE tid

Geom(x, lin, lout, slack) ==
    [Lin |-> lin, X |-> x.g.X, Lout |-> lout, copyq |-> x.g.copyq,
     active |-> Range(x.g.active), slack |-> slack]
Sum(f, n) == LET F[k \in 0..n] == IF k = 0 THEN 0 ELSE F[k - 1] + f[k] IN F[n]

\* does the implementation hold the nominal zone lengths
ExactLengths(x) == x.code.LinM = x.g.Lin * x.mpf /\ x.code.LoutM = x.g.Lout * x.mpf

Verdict(x) ==
    IF "crash" \in DOMAIN x \/ "error" \in DOMAIN x
    THEN [id |-> x.id, failed |-> {<<0, "Returns">>}, known |-> {},
          links |-> TRUE, drift |-> {}, ncalls |-> 0, entered |-> 0,
          left |-> 0, deleted |-> 0]
    ELSE LET nominal == Geom(x, x.g.Lin, x.g.Lout, 0)
             ascode  == Geom(x, x.code.Lin, x.code.Lout, 1)
             f == HFailed(nominal, x.calls)
             okc == {k \in DOMAIN x.calls : x.calls[k].ok /\ x.calls[k].kind # "other"}
             n == Len(x.calls)
             vs == Views(x.calls)
         IN [id |-> x.id,
             failed |-> f,
             known |-> IF /\ f # {}
                          /\ x.naxes > 1
                          /\ ~ExactLengths(x)
                          /\ HFailed(ascode, x.calls) = {}
                       THEN {"C16-diagonal-length"} ELSE {},
             links |-> Links(x.calls),
             drift |-> IF ExactLengths(x)
                       THEN {k \in okc : Drift(nominal, x.calls[k])} ELSE {},
             ncalls |-> n,
             entered |-> Sum([k \in 1..n |-> IF k \in okc THEN EnteredV(vs[k]) ELSE 0], n),
             left |-> Sum([k \in 1..n |-> IF k \in okc THEN LeftV(vs[k]) ELSE 0], n),
             deleted |-> Sum([k \in 1..n |-> IF k \in okc THEN DeletedV(vs[k]) ELSE 0], n)]

TInit == /\ tid \in 1..Len(Traces) /\ TLCSet(tid, Verdict(Traces[tid]))
         /\ g = <<>> /\ st = <<>> /\ calls = <<>> /\ phase = "trace"
         /\ cursor = 0 /\ round = 0 /\ nextid = 0 /\ order = <<>> /\ stage = 0
TNext == FALSE /\ UNCHANGED <<tid, g, st, calls, phase, cursor, round, nextid, order, stage>>
Report == \A i \in 1..Len(Traces) : PrintT(<<"VERDICT", ToJson(TLCGet(i))>>)
=============================================================================
