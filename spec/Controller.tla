----------------------------- MODULE Controller -----------------------------
(***************************************************************************)
(* pysph.solver.controller.CommandManager at the granularity of its        *)
(* synchronisation primitives (C18).                                       *)
(*                                                                         *)
(* One solver thread executes control points (execute_commands: run the    *)
(* queue under qlock, then wait_for_cmd) and takes a time step between     *)
(* them; interface threads run finite programs over                        *)
(*   "G" get/set (immediate dispatch)     "Q" queued (non-blocking) command *)
(*   "R" get_result of the oldest own id  "P" pause_on_next                 *)
(*   "W" wait                             "C" cont                          *)
(* Every label is one primitive of controller.py: Lock/Condition acquire   *)
(* and release, Condition.wait (release + block, then re-acquire as a      *)
(* separate step), notify (wakes one arbitrary waiter, none if there is    *)
(* none - which is what makes a bare wait() lose a wake-up), notify_all.   *)
(*                                                                         *)
(* Property layer (ghost variables only): ExactlyOnce, PauseHolds,         *)
(* WaitNotEarly, absence of deadlock, termination of interface programs.   *)
(***************************************************************************)
EXTENDS Integers, Sequences, FiniteSets, TLC

CONSTANTS NI,          \* number of interface threads
          Prog         \* Prog[i]: sequence of operations of interface i
Iface == 1..NI
Solver == 0
NONE == -1
MaxQ == 3
Ids == Iface \X (1..MaxQ)

(* --algorithm Controller {
variables
  owner = [l \in {"dlock", "reslock", "plock", "qlock"} |-> NONE],
  tlock = [id \in Ids |-> "none"],        \* per-command result lock
  waiting = [c \in {"plock", "qlock"} |-> {}],
  woken = [c \in {"plock", "qlock"} |-> {}],
  queue = <<>>, results = {}, pause = {},
  executed = [id \in Ids |-> 0], delivered = [id \in Ids |-> 0],
  moved = [i \in Iface |-> FALSE],
  inloop = FALSE,                         \* solver inside the pause loop
  early = [i \in Iface |-> FALSE],        \* wait() returned outside it
  inpause = [i \in Iface |-> FALSE],
  spur = [i \in Iface |-> FALSE],
  ip = [i \in Iface |-> 1], nq = [i \in Iface |-> 0], nr = [i \in Iface |-> 0],
  cur = <<0, 0>>;

macro acquire(l) { await owner[l] = NONE; owner[l] := self; }
macro release(l) { owner[l] := NONE; }
macro notify_one(c) {
  if (waiting[c] # {}) {
    with (w \in waiting[c]) {
      waiting[c] := waiting[c] \ {w}; woken[c] := woken[c] \cup {w};
      spur := [spur EXCEPT ![w] = TRUE];
    }
  }
}
macro notify_all(c) { woken[c] := woken[c] \cup waiting[c]; waiting[c] := {}; }
macro cond_wait(c) { owner[c] := NONE; waiting[c] := waiting[c] \cup {self}; }
macro cond_wake(c) {
  await self \in woken[c] /\ owner[c] = NONE;
  woken[c] := woken[c] \ {self}; owner[c] := self;
}

procedure RunQueued() {
  rq1: while (queue # <<>>) {
         cur := Head(queue); queue := Tail(queue);
  rq2:   acquire("reslock");
  rq3:   results := results \cup {cur};
         executed[cur] := executed[cur] + 1;
         tlock[cur] := "free";
  rq4:   release("reslock");
       };
  rq5: return;
}

fair process (S \in {Solver}) {
  s0: while (TRUE) {
  s1:   acquire("qlock");                     \* execute_commands
  s2:   call RunQueued();
  s3:   release("qlock");
  s4:   acquire("qlock");                     \* wait_for_cmd
  s5:   while (pause # {}) {
          inloop := TRUE;
  s6:     acquire("plock");
  s7:     notify_all("plock");
  s8:     release("plock");
  s9:     cond_wait("qlock");
  s10:    cond_wake("qlock");
  s11:    call RunQueued();
        };
  s12:  release("qlock");
        inloop := FALSE;
  s13:  moved := [i \in Iface |-> TRUE];      \* the solver takes a time step
      }
}

fair+ process (I \in Iface) {
  i0: while (ip[self] <= Len(Prog[self])) {
        if (Prog[self][ip[self]] = "G") {
  g1:     acquire("dlock");
  g2:     release("dlock");
        } else if (Prog[self][ip[self]] = "Q") {
  q1:     acquire("dlock");
  q1b:    nq[self] := nq[self] + 1;          \* lock = Lock(); lock.acquire()
          tlock[<<self, nq[self]>>] := "held";
  q2:     acquire("qlock");
  q3:     queue := Append(queue, <<self, nq[self]>>);
  q4:     release("qlock");
  q5:     release("dlock");
        } else if (Prog[self][ip[self]] = "R") {
          nr[self] := nr[self] + 1;
  r1:     await tlock[<<self, nr[self]>>] = "free";
          tlock[<<self, nr[self]>>] := "held";
  r2:     acquire("reslock");
  r3:     assert <<self, nr[self]>> \in results;
          results := results \ {<<self, nr[self]>>};
          delivered[<<self, nr[self]>>] := delivered[<<self, nr[self]>>] + 1;
  r4:     release("reslock");
  r5:     tlock[<<self, nr[self]>>] := "gone";
        } else if (Prog[self][ip[self]] = "P") {
  p1:     acquire("plock");
  p2:     pause := pause \cup {self};
  p3:     notify_one("plock");
  p4:     release("plock");
        } else if (Prog[self][ip[self]] = "W") {
  w1:     acquire("plock");
          spur[self] := FALSE;
  w2:     cond_wait("plock");
  w3:     cond_wake("plock");
  w4:     release("plock");
          inpause[self] := TRUE;
          early[self] := ~inloop;
          moved[self] := FALSE;
        } else if (Prog[self][ip[self]] = "C") {
  c1:     acquire("plock");
          inpause[self] := FALSE;
  c2:     pause := pause \ {self};
  c3:     notify_one("plock");
  c4:     acquire("qlock");
  c5:     notify_all("qlock");
  c6:     release("qlock");
  c7:     release("plock");
        };
  i1:   ip[self] := ip[self] + 1;
      }
}
} *)
\* BEGIN TRANSLATION (chksum(pcal) = "fc126df5" /\ chksum(tla) = "b15cc3fa")
VARIABLES pc, owner, tlock, waiting, woken, queue, results, pause, executed, 
          delivered, moved, inloop, early, inpause, spur, ip, nq, nr, cur, 
          stack

vars == << pc, owner, tlock, waiting, woken, queue, results, pause, executed, 
           delivered, moved, inloop, early, inpause, spur, ip, nq, nr, cur, 
           stack >>

ProcSet == ({Solver}) \cup (Iface)

Init == (* Global variables *)
        /\ owner = [l \in {"dlock", "reslock", "plock", "qlock"} |-> NONE]
        /\ tlock = [id \in Ids |-> "none"]
        /\ waiting = [c \in {"plock", "qlock"} |-> {}]
        /\ woken = [c \in {"plock", "qlock"} |-> {}]
        /\ queue = <<>>
        /\ results = {}
        /\ pause = {}
        /\ executed = [id \in Ids |-> 0]
        /\ delivered = [id \in Ids |-> 0]
        /\ moved = [i \in Iface |-> FALSE]
        /\ inloop = FALSE
        /\ early = [i \in Iface |-> FALSE]
        /\ inpause = [i \in Iface |-> FALSE]
        /\ spur = [i \in Iface |-> FALSE]
        /\ ip = [i \in Iface |-> 1]
        /\ nq = [i \in Iface |-> 0]
        /\ nr = [i \in Iface |-> 0]
        /\ cur = <<0, 0>>
        /\ stack = [self \in ProcSet |-> << >>]
        /\ pc = [self \in ProcSet |-> CASE self \in {Solver} -> "s0"
                                        [] self \in Iface -> "i0"]

rq1(self) == /\ pc[self] = "rq1"
             /\ IF queue # <<>>
                   THEN /\ cur' = Head(queue)
                        /\ queue' = Tail(queue)
                        /\ pc' = [pc EXCEPT ![self] = "rq2"]
                   ELSE /\ pc' = [pc EXCEPT ![self] = "rq5"]
                        /\ UNCHANGED << queue, cur >>
             /\ UNCHANGED << owner, tlock, waiting, woken, results, pause, 
                             executed, delivered, moved, inloop, early, 
                             inpause, spur, ip, nq, nr, stack >>

rq2(self) == /\ pc[self] = "rq2"
             /\ owner["reslock"] = NONE
             /\ owner' = [owner EXCEPT !["reslock"] = self]
             /\ pc' = [pc EXCEPT ![self] = "rq3"]
             /\ UNCHANGED << tlock, waiting, woken, queue, results, pause, 
                             executed, delivered, moved, inloop, early, 
                             inpause, spur, ip, nq, nr, cur, stack >>

rq3(self) == /\ pc[self] = "rq3"
             /\ results' = (results \cup {cur})
             /\ executed' = [executed EXCEPT ![cur] = executed[cur] + 1]
             /\ tlock' = [tlock EXCEPT ![cur] = "free"]
             /\ pc' = [pc EXCEPT ![self] = "rq4"]
             /\ UNCHANGED << owner, waiting, woken, queue, pause, delivered, 
                             moved, inloop, early, inpause, spur, ip, nq, nr, 
                             cur, stack >>

rq4(self) == /\ pc[self] = "rq4"
             /\ owner' = [owner EXCEPT !["reslock"] = NONE]
             /\ pc' = [pc EXCEPT ![self] = "rq1"]
             /\ UNCHANGED << tlock, waiting, woken, queue, results, pause, 
                             executed, delivered, moved, inloop, early, 
                             inpause, spur, ip, nq, nr, cur, stack >>

rq5(self) == /\ pc[self] = "rq5"
             /\ pc' = [pc EXCEPT ![self] = Head(stack[self]).pc]
             /\ stack' = [stack EXCEPT ![self] = Tail(stack[self])]
             /\ UNCHANGED << owner, tlock, waiting, woken, queue, results, 
                             pause, executed, delivered, moved, inloop, early, 
                             inpause, spur, ip, nq, nr, cur >>

RunQueued(self) == rq1(self) \/ rq2(self) \/ rq3(self) \/ rq4(self)
                      \/ rq5(self)

s0(self) == /\ pc[self] = "s0"
            /\ pc' = [pc EXCEPT ![self] = "s1"]
            /\ UNCHANGED << owner, tlock, waiting, woken, queue, results, 
                            pause, executed, delivered, moved, inloop, early, 
                            inpause, spur, ip, nq, nr, cur, stack >>

s1(self) == /\ pc[self] = "s1"
            /\ owner["qlock"] = NONE
            /\ owner' = [owner EXCEPT !["qlock"] = self]
            /\ pc' = [pc EXCEPT ![self] = "s2"]
            /\ UNCHANGED << tlock, waiting, woken, queue, results, pause, 
                            executed, delivered, moved, inloop, early, inpause, 
                            spur, ip, nq, nr, cur, stack >>

s2(self) == /\ pc[self] = "s2"
            /\ stack' = [stack EXCEPT ![self] = << [ procedure |->  "RunQueued",
                                                     pc        |->  "s3" ] >>
                                                 \o stack[self]]
            /\ pc' = [pc EXCEPT ![self] = "rq1"]
            /\ UNCHANGED << owner, tlock, waiting, woken, queue, results, 
                            pause, executed, delivered, moved, inloop, early, 
                            inpause, spur, ip, nq, nr, cur >>

s3(self) == /\ pc[self] = "s3"
            /\ owner' = [owner EXCEPT !["qlock"] = NONE]
            /\ pc' = [pc EXCEPT ![self] = "s4"]
            /\ UNCHANGED << tlock, waiting, woken, queue, results, pause, 
                            executed, delivered, moved, inloop, early, inpause, 
                            spur, ip, nq, nr, cur, stack >>

s4(self) == /\ pc[self] = "s4"
            /\ owner["qlock"] = NONE
            /\ owner' = [owner EXCEPT !["qlock"] = self]
            /\ pc' = [pc EXCEPT ![self] = "s5"]
            /\ UNCHANGED << tlock, waiting, woken, queue, results, pause, 
                            executed, delivered, moved, inloop, early, inpause, 
                            spur, ip, nq, nr, cur, stack >>

s5(self) == /\ pc[self] = "s5"
            /\ IF pause # {}
                  THEN /\ inloop' = TRUE
                       /\ pc' = [pc EXCEPT ![self] = "s6"]
                  ELSE /\ pc' = [pc EXCEPT ![self] = "s12"]
                       /\ UNCHANGED inloop
            /\ UNCHANGED << owner, tlock, waiting, woken, queue, results, 
                            pause, executed, delivered, moved, early, inpause, 
                            spur, ip, nq, nr, cur, stack >>

s6(self) == /\ pc[self] = "s6"
            /\ owner["plock"] = NONE
            /\ owner' = [owner EXCEPT !["plock"] = self]
            /\ pc' = [pc EXCEPT ![self] = "s7"]
            /\ UNCHANGED << tlock, waiting, woken, queue, results, pause, 
                            executed, delivered, moved, inloop, early, inpause, 
                            spur, ip, nq, nr, cur, stack >>

s7(self) == /\ pc[self] = "s7"
            /\ woken' = [woken EXCEPT !["plock"] = woken["plock"] \cup waiting["plock"]]
            /\ waiting' = [waiting EXCEPT !["plock"] = {}]
            /\ pc' = [pc EXCEPT ![self] = "s8"]
            /\ UNCHANGED << owner, tlock, queue, results, pause, executed, 
                            delivered, moved, inloop, early, inpause, spur, ip, 
                            nq, nr, cur, stack >>

s8(self) == /\ pc[self] = "s8"
            /\ owner' = [owner EXCEPT !["plock"] = NONE]
            /\ pc' = [pc EXCEPT ![self] = "s9"]
            /\ UNCHANGED << tlock, waiting, woken, queue, results, pause, 
                            executed, delivered, moved, inloop, early, inpause, 
                            spur, ip, nq, nr, cur, stack >>

s9(self) == /\ pc[self] = "s9"
            /\ owner' = [owner EXCEPT !["qlock"] = NONE]
            /\ waiting' = [waiting EXCEPT !["qlock"] = waiting["qlock"] \cup {self}]
            /\ pc' = [pc EXCEPT ![self] = "s10"]
            /\ UNCHANGED << tlock, woken, queue, results, pause, executed, 
                            delivered, moved, inloop, early, inpause, spur, ip, 
                            nq, nr, cur, stack >>

s10(self) == /\ pc[self] = "s10"
             /\ self \in woken["qlock"] /\ owner["qlock"] = NONE
             /\ woken' = [woken EXCEPT !["qlock"] = woken["qlock"] \ {self}]
             /\ owner' = [owner EXCEPT !["qlock"] = self]
             /\ pc' = [pc EXCEPT ![self] = "s11"]
             /\ UNCHANGED << tlock, waiting, queue, results, pause, executed, 
                             delivered, moved, inloop, early, inpause, spur, 
                             ip, nq, nr, cur, stack >>

s11(self) == /\ pc[self] = "s11"
             /\ stack' = [stack EXCEPT ![self] = << [ procedure |->  "RunQueued",
                                                      pc        |->  "s5" ] >>
                                                  \o stack[self]]
             /\ pc' = [pc EXCEPT ![self] = "rq1"]
             /\ UNCHANGED << owner, tlock, waiting, woken, queue, results, 
                             pause, executed, delivered, moved, inloop, early, 
                             inpause, spur, ip, nq, nr, cur >>

s12(self) == /\ pc[self] = "s12"
             /\ owner' = [owner EXCEPT !["qlock"] = NONE]
             /\ inloop' = FALSE
             /\ pc' = [pc EXCEPT ![self] = "s13"]
             /\ UNCHANGED << tlock, waiting, woken, queue, results, pause, 
                             executed, delivered, moved, early, inpause, spur, 
                             ip, nq, nr, cur, stack >>

s13(self) == /\ pc[self] = "s13"
             /\ moved' = [i \in Iface |-> TRUE]
             /\ pc' = [pc EXCEPT ![self] = "s0"]
             /\ UNCHANGED << owner, tlock, waiting, woken, queue, results, 
                             pause, executed, delivered, inloop, early, 
                             inpause, spur, ip, nq, nr, cur, stack >>

S(self) == s0(self) \/ s1(self) \/ s2(self) \/ s3(self) \/ s4(self)
              \/ s5(self) \/ s6(self) \/ s7(self) \/ s8(self) \/ s9(self)
              \/ s10(self) \/ s11(self) \/ s12(self) \/ s13(self)

i0(self) == /\ pc[self] = "i0"
            /\ IF ip[self] <= Len(Prog[self])
                  THEN /\ IF Prog[self][ip[self]] = "G"
                             THEN /\ pc' = [pc EXCEPT ![self] = "g1"]
                                  /\ nr' = nr
                             ELSE /\ IF Prog[self][ip[self]] = "Q"
                                        THEN /\ pc' = [pc EXCEPT ![self] = "q1"]
                                             /\ nr' = nr
                                        ELSE /\ IF Prog[self][ip[self]] = "R"
                                                   THEN /\ nr' = [nr EXCEPT ![self] = nr[self] + 1]
                                                        /\ pc' = [pc EXCEPT ![self] = "r1"]
                                                   ELSE /\ IF Prog[self][ip[self]] = "P"
                                                              THEN /\ pc' = [pc EXCEPT ![self] = "p1"]
                                                              ELSE /\ IF Prog[self][ip[self]] = "W"
                                                                         THEN /\ pc' = [pc EXCEPT ![self] = "w1"]
                                                                         ELSE /\ IF Prog[self][ip[self]] = "C"
                                                                                    THEN /\ pc' = [pc EXCEPT ![self] = "c1"]
                                                                                    ELSE /\ pc' = [pc EXCEPT ![self] = "i1"]
                                                        /\ nr' = nr
                  ELSE /\ pc' = [pc EXCEPT ![self] = "Done"]
                       /\ nr' = nr
            /\ UNCHANGED << owner, tlock, waiting, woken, queue, results, 
                            pause, executed, delivered, moved, inloop, early, 
                            inpause, spur, ip, nq, cur, stack >>

i1(self) == /\ pc[self] = "i1"
            /\ ip' = [ip EXCEPT ![self] = ip[self] + 1]
            /\ pc' = [pc EXCEPT ![self] = "i0"]
            /\ UNCHANGED << owner, tlock, waiting, woken, queue, results, 
                            pause, executed, delivered, moved, inloop, early, 
                            inpause, spur, nq, nr, cur, stack >>

g1(self) == /\ pc[self] = "g1"
            /\ owner["dlock"] = NONE
            /\ owner' = [owner EXCEPT !["dlock"] = self]
            /\ pc' = [pc EXCEPT ![self] = "g2"]
            /\ UNCHANGED << tlock, waiting, woken, queue, results, pause, 
                            executed, delivered, moved, inloop, early, inpause, 
                            spur, ip, nq, nr, cur, stack >>

g2(self) == /\ pc[self] = "g2"
            /\ owner' = [owner EXCEPT !["dlock"] = NONE]
            /\ pc' = [pc EXCEPT ![self] = "i1"]
            /\ UNCHANGED << tlock, waiting, woken, queue, results, pause, 
                            executed, delivered, moved, inloop, early, inpause, 
                            spur, ip, nq, nr, cur, stack >>

q1(self) == /\ pc[self] = "q1"
            /\ owner["dlock"] = NONE
            /\ owner' = [owner EXCEPT !["dlock"] = self]
            /\ pc' = [pc EXCEPT ![self] = "q1b"]
            /\ UNCHANGED << tlock, waiting, woken, queue, results, pause, 
                            executed, delivered, moved, inloop, early, inpause, 
                            spur, ip, nq, nr, cur, stack >>

q1b(self) == /\ pc[self] = "q1b"
             /\ nq' = [nq EXCEPT ![self] = nq[self] + 1]
             /\ tlock' = [tlock EXCEPT ![<<self, nq'[self]>>] = "held"]
             /\ pc' = [pc EXCEPT ![self] = "q2"]
             /\ UNCHANGED << owner, waiting, woken, queue, results, pause, 
                             executed, delivered, moved, inloop, early, 
                             inpause, spur, ip, nr, cur, stack >>

q2(self) == /\ pc[self] = "q2"
            /\ owner["qlock"] = NONE
            /\ owner' = [owner EXCEPT !["qlock"] = self]
            /\ pc' = [pc EXCEPT ![self] = "q3"]
            /\ UNCHANGED << tlock, waiting, woken, queue, results, pause, 
                            executed, delivered, moved, inloop, early, inpause, 
                            spur, ip, nq, nr, cur, stack >>

q3(self) == /\ pc[self] = "q3"
            /\ queue' = Append(queue, <<self, nq[self]>>)
            /\ pc' = [pc EXCEPT ![self] = "q4"]
            /\ UNCHANGED << owner, tlock, waiting, woken, results, pause, 
                            executed, delivered, moved, inloop, early, inpause, 
                            spur, ip, nq, nr, cur, stack >>

q4(self) == /\ pc[self] = "q4"
            /\ owner' = [owner EXCEPT !["qlock"] = NONE]
            /\ pc' = [pc EXCEPT ![self] = "q5"]
            /\ UNCHANGED << tlock, waiting, woken, queue, results, pause, 
                            executed, delivered, moved, inloop, early, inpause, 
                            spur, ip, nq, nr, cur, stack >>

q5(self) == /\ pc[self] = "q5"
            /\ owner' = [owner EXCEPT !["dlock"] = NONE]
            /\ pc' = [pc EXCEPT ![self] = "i1"]
            /\ UNCHANGED << tlock, waiting, woken, queue, results, pause, 
                            executed, delivered, moved, inloop, early, inpause, 
                            spur, ip, nq, nr, cur, stack >>

r1(self) == /\ pc[self] = "r1"
            /\ tlock[<<self, nr[self]>>] = "free"
            /\ tlock' = [tlock EXCEPT ![<<self, nr[self]>>] = "held"]
            /\ pc' = [pc EXCEPT ![self] = "r2"]
            /\ UNCHANGED << owner, waiting, woken, queue, results, pause, 
                            executed, delivered, moved, inloop, early, inpause, 
                            spur, ip, nq, nr, cur, stack >>

r2(self) == /\ pc[self] = "r2"
            /\ owner["reslock"] = NONE
            /\ owner' = [owner EXCEPT !["reslock"] = self]
            /\ pc' = [pc EXCEPT ![self] = "r3"]
            /\ UNCHANGED << tlock, waiting, woken, queue, results, pause, 
                            executed, delivered, moved, inloop, early, inpause, 
                            spur, ip, nq, nr, cur, stack >>

r3(self) == /\ pc[self] = "r3"
            /\ Assert(<<self, nr[self]>> \in results, 
                      "Failure of assertion at line 114, column 11.")
            /\ results' = results \ {<<self, nr[self]>>}
            /\ delivered' = [delivered EXCEPT ![<<self, nr[self]>>] = delivered[<<self, nr[self]>>] + 1]
            /\ pc' = [pc EXCEPT ![self] = "r4"]
            /\ UNCHANGED << owner, tlock, waiting, woken, queue, pause, 
                            executed, moved, inloop, early, inpause, spur, ip, 
                            nq, nr, cur, stack >>

r4(self) == /\ pc[self] = "r4"
            /\ owner' = [owner EXCEPT !["reslock"] = NONE]
            /\ pc' = [pc EXCEPT ![self] = "r5"]
            /\ UNCHANGED << tlock, waiting, woken, queue, results, pause, 
                            executed, delivered, moved, inloop, early, inpause, 
                            spur, ip, nq, nr, cur, stack >>

r5(self) == /\ pc[self] = "r5"
            /\ tlock' = [tlock EXCEPT ![<<self, nr[self]>>] = "gone"]
            /\ pc' = [pc EXCEPT ![self] = "i1"]
            /\ UNCHANGED << owner, waiting, woken, queue, results, pause, 
                            executed, delivered, moved, inloop, early, inpause, 
                            spur, ip, nq, nr, cur, stack >>

p1(self) == /\ pc[self] = "p1"
            /\ owner["plock"] = NONE
            /\ owner' = [owner EXCEPT !["plock"] = self]
            /\ pc' = [pc EXCEPT ![self] = "p2"]
            /\ UNCHANGED << tlock, waiting, woken, queue, results, pause, 
                            executed, delivered, moved, inloop, early, inpause, 
                            spur, ip, nq, nr, cur, stack >>

p2(self) == /\ pc[self] = "p2"
            /\ pause' = (pause \cup {self})
            /\ pc' = [pc EXCEPT ![self] = "p3"]
            /\ UNCHANGED << owner, tlock, waiting, woken, queue, results, 
                            executed, delivered, moved, inloop, early, inpause, 
                            spur, ip, nq, nr, cur, stack >>

p3(self) == /\ pc[self] = "p3"
            /\ IF waiting["plock"] # {}
                  THEN /\ \E w \in waiting["plock"]:
                            /\ waiting' = [waiting EXCEPT !["plock"] = waiting["plock"] \ {w}]
                            /\ woken' = [woken EXCEPT !["plock"] = woken["plock"] \cup {w}]
                            /\ spur' = [spur EXCEPT ![w] = TRUE]
                  ELSE /\ TRUE
                       /\ UNCHANGED << waiting, woken, spur >>
            /\ pc' = [pc EXCEPT ![self] = "p4"]
            /\ UNCHANGED << owner, tlock, queue, results, pause, executed, 
                            delivered, moved, inloop, early, inpause, ip, nq, 
                            nr, cur, stack >>

p4(self) == /\ pc[self] = "p4"
            /\ owner' = [owner EXCEPT !["plock"] = NONE]
            /\ pc' = [pc EXCEPT ![self] = "i1"]
            /\ UNCHANGED << tlock, waiting, woken, queue, results, pause, 
                            executed, delivered, moved, inloop, early, inpause, 
                            spur, ip, nq, nr, cur, stack >>

w1(self) == /\ pc[self] = "w1"
            /\ owner["plock"] = NONE
            /\ owner' = [owner EXCEPT !["plock"] = self]
            /\ spur' = [spur EXCEPT ![self] = FALSE]
            /\ pc' = [pc EXCEPT ![self] = "w2"]
            /\ UNCHANGED << tlock, waiting, woken, queue, results, pause, 
                            executed, delivered, moved, inloop, early, inpause, 
                            ip, nq, nr, cur, stack >>

w2(self) == /\ pc[self] = "w2"
            /\ owner' = [owner EXCEPT !["plock"] = NONE]
            /\ waiting' = [waiting EXCEPT !["plock"] = waiting["plock"] \cup {self}]
            /\ pc' = [pc EXCEPT ![self] = "w3"]
            /\ UNCHANGED << tlock, woken, queue, results, pause, executed, 
                            delivered, moved, inloop, early, inpause, spur, ip, 
                            nq, nr, cur, stack >>

w3(self) == /\ pc[self] = "w3"
            /\ self \in woken["plock"] /\ owner["plock"] = NONE
            /\ woken' = [woken EXCEPT !["plock"] = woken["plock"] \ {self}]
            /\ owner' = [owner EXCEPT !["plock"] = self]
            /\ pc' = [pc EXCEPT ![self] = "w4"]
            /\ UNCHANGED << tlock, waiting, queue, results, pause, executed, 
                            delivered, moved, inloop, early, inpause, spur, ip, 
                            nq, nr, cur, stack >>

w4(self) == /\ pc[self] = "w4"
            /\ owner' = [owner EXCEPT !["plock"] = NONE]
            /\ inpause' = [inpause EXCEPT ![self] = TRUE]
            /\ early' = [early EXCEPT ![self] = ~inloop]
            /\ moved' = [moved EXCEPT ![self] = FALSE]
            /\ pc' = [pc EXCEPT ![self] = "i1"]
            /\ UNCHANGED << tlock, waiting, woken, queue, results, pause, 
                            executed, delivered, inloop, spur, ip, nq, nr, cur, 
                            stack >>

c1(self) == /\ pc[self] = "c1"
            /\ owner["plock"] = NONE
            /\ owner' = [owner EXCEPT !["plock"] = self]
            /\ inpause' = [inpause EXCEPT ![self] = FALSE]
            /\ pc' = [pc EXCEPT ![self] = "c2"]
            /\ UNCHANGED << tlock, waiting, woken, queue, results, pause, 
                            executed, delivered, moved, inloop, early, spur, 
                            ip, nq, nr, cur, stack >>

c2(self) == /\ pc[self] = "c2"
            /\ pause' = pause \ {self}
            /\ pc' = [pc EXCEPT ![self] = "c3"]
            /\ UNCHANGED << owner, tlock, waiting, woken, queue, results, 
                            executed, delivered, moved, inloop, early, inpause, 
                            spur, ip, nq, nr, cur, stack >>

c3(self) == /\ pc[self] = "c3"
            /\ IF waiting["plock"] # {}
                  THEN /\ \E w \in waiting["plock"]:
                            /\ waiting' = [waiting EXCEPT !["plock"] = waiting["plock"] \ {w}]
                            /\ woken' = [woken EXCEPT !["plock"] = woken["plock"] \cup {w}]
                            /\ spur' = [spur EXCEPT ![w] = TRUE]
                  ELSE /\ TRUE
                       /\ UNCHANGED << waiting, woken, spur >>
            /\ pc' = [pc EXCEPT ![self] = "c4"]
            /\ UNCHANGED << owner, tlock, queue, results, pause, executed, 
                            delivered, moved, inloop, early, inpause, ip, nq, 
                            nr, cur, stack >>

c4(self) == /\ pc[self] = "c4"
            /\ owner["qlock"] = NONE
            /\ owner' = [owner EXCEPT !["qlock"] = self]
            /\ pc' = [pc EXCEPT ![self] = "c5"]
            /\ UNCHANGED << tlock, waiting, woken, queue, results, pause, 
                            executed, delivered, moved, inloop, early, inpause, 
                            spur, ip, nq, nr, cur, stack >>

c5(self) == /\ pc[self] = "c5"
            /\ woken' = [woken EXCEPT !["qlock"] = woken["qlock"] \cup waiting["qlock"]]
            /\ waiting' = [waiting EXCEPT !["qlock"] = {}]
            /\ pc' = [pc EXCEPT ![self] = "c6"]
            /\ UNCHANGED << owner, tlock, queue, results, pause, executed, 
                            delivered, moved, inloop, early, inpause, spur, ip, 
                            nq, nr, cur, stack >>

c6(self) == /\ pc[self] = "c6"
            /\ owner' = [owner EXCEPT !["qlock"] = NONE]
            /\ pc' = [pc EXCEPT ![self] = "c7"]
            /\ UNCHANGED << tlock, waiting, woken, queue, results, pause, 
                            executed, delivered, moved, inloop, early, inpause, 
                            spur, ip, nq, nr, cur, stack >>

c7(self) == /\ pc[self] = "c7"
            /\ owner' = [owner EXCEPT !["plock"] = NONE]
            /\ pc' = [pc EXCEPT ![self] = "i1"]
            /\ UNCHANGED << tlock, waiting, woken, queue, results, pause, 
                            executed, delivered, moved, inloop, early, inpause, 
                            spur, ip, nq, nr, cur, stack >>

I(self) == i0(self) \/ i1(self) \/ g1(self) \/ g2(self) \/ q1(self)
              \/ q1b(self) \/ q2(self) \/ q3(self) \/ q4(self) \/ q5(self)
              \/ r1(self) \/ r2(self) \/ r3(self) \/ r4(self) \/ r5(self)
              \/ p1(self) \/ p2(self) \/ p3(self) \/ p4(self) \/ w1(self)
              \/ w2(self) \/ w3(self) \/ w4(self) \/ c1(self) \/ c2(self)
              \/ c3(self) \/ c4(self) \/ c5(self) \/ c6(self) \/ c7(self)

Next == (\E self \in ProcSet: RunQueued(self))
           \/ (\E self \in {Solver}: S(self))
           \/ (\E self \in Iface: I(self))

Spec == /\ Init /\ [][Next]_vars
        /\ \A self \in {Solver} : WF_vars(S(self)) /\ WF_vars(RunQueued(self))
        /\ \A self \in Iface : SF_vars(I(self))

\* END TRANSLATION 

-----------------------------------------------------------------------------
(* Property layer *)
ExactlyOnce ==
    /\ \A id \in Ids : executed[id] <= 1 /\ delivered[id] <= 1
    /\ \A id \in Ids : delivered[id] = 1 => executed[id] = 1
PauseHolds == \A i \in Iface : inpause[i] => ~moved[i]
WaitNotEarly == \A i \in Iface : inpause[i] => ~early[i]
AllDone == \A i \in Iface : pc[i] = "Done"
\* every interface program finishes, and everything it queued and asked for
\* was delivered
IfacesTerminate == <>AllDone
ResultsDelivered == AllDone => \A i \in Iface : \A k \in 1..nr[i] : delivered[<<i, k>>] = 1
\* the solver is never blocked forever: it keeps reaching control points
SolverLive == []<>(pc[Solver] = "s1")
\* Known findings (known_findings.json), as predicates on the model state.
Stuck == ~ENABLED Next
K_LostWakeup == pc[Solver] = "s10" /\ \E i \in Iface : pc[i] = "w3" /\ i \in waiting["plock"]
K_LockOrder  == pc[Solver] = "s6" /\ \E i \in Iface : pc[i] = "c4"
K_ResultWhilePaused == pc[Solver] = "s10" /\ \E i \in Iface : pc[i] = "r1"
KnownStuck == Stuck /\ (K_LostWakeup \/ K_LockOrder \/ K_ResultWhilePaused)
NoUnknownDeadlock == Stuck => KnownStuck
IfacesTerminateM == <>(AllDone \/ KnownStuck)
SolverLiveM == []<>(pc[Solver] = "s1" \/ KnownStuck)
\* C18-spurious-wait-return: a waiter woken by another interface's notify
PauseHoldsM == \A i \in Iface : inpause[i] => (~moved[i] \/ spur[i])
WaitNotEarlyM == \A i \in Iface : inpause[i] => (~early[i] \/ spur[i])
TypeOK == /\ \A l \in DOMAIN owner : owner[l] \in {NONE, Solver} \cup Iface
          /\ pause \subseteq Iface
=============================================================================
