------------------------------ MODULE Schemes ------------------------------
(***************************************************************************)
(* C12 - every shipped scheme yields a complete, generatable simulation.   *)
(*                                                                         *)
(* A *configuration* is (scheme class, option assignment, dim, with or     *)
(* without solid arrays, clean).  The *abstraction of the set-up           *)
(* simulation* - what scheme.configure / configure_solver /                *)
(* setup_properties / get_equations / get_solver leave behind - is a       *)
(* record c (JSON: checks/c12_driver.py):                                  *)
(*   c.scheme, c.dim, c.solids, c.clean, c.chooser, c.integrator           *)
(*   c.opts     : Seq([k, v])            option name -> value (as text)    *)
(*   c.route, c.ctor : how the assignment was reached: the scheme is       *)
(*                constructed with c.ctor (route "same": = opts; "flip" /  *)
(*                "flip1": other values) and c.opts is then applied by     *)
(*                scheme.configure before configure_solver; the property   *)
(*                quantifies over the final assignment, whatever the route *)
(*   c.layout   : "single" (fluids = <<fluid>>, solids = <<solid>> or      *)
(*                <<>>), "multi" / "multi0" (three fluids, two solids with *)
(*                DIFFERENT particle counts; multi0: one fluid is empty)   *)
(*   c.setup    : [ok, stage, msg]       did every set-up call (construct, *)
(*                configure, configure_solver, setup_properties,           *)
(*                get_equations, get_solver) return; an exception of any   *)
(*                kind on this admissible input makes ok FALSE             *)
(*   c.arrays   : Seq([name, props, n, lens, idx])  property + constant    *)
(*                names of each particle array after set-up; n = number of *)
(*                particles; lens = Seq([size, props]) the properties      *)
(*                grouped by carray length / stride; idx = the values of   *)
(*                orig_idx (<<>> when the scheme did not add it)           *)
(*   c.eqs      : Seq([cls, dest, sources, d, s, syms, stage, gd, gs,      *)
(*                     need, mod])                                         *)
(*                one entry per equation, Group trees and                  *)
(*                MultiStageEquations flattened in evaluation order;       *)
(*                d / s = explicit d_* / s_* argument names of its         *)
(*                methods, syms = the other arguments of loop()            *)
(*   c.steppers : Seq([array, cls, methods : Seq([m, names])])             *)
(*   c.symtab   : Seq([sym, d, s, deps]) the code's precomputed symbols    *)
(*   c.gen      : [done, ok, kind, eq, msg]    code generation outcome     *)
(*   c.run      : [done, ok, kind, bad, msg]   3-step run, finiteness      *)
(*                                                                         *)
(* (P) property layer: Required, Witnesses, the clauses SetUp / Complete / *)
(* Generated / RunFinite and Failed.  (M) mechanism layer: the symbol      *)
(* table SymTab (transcribed from pysph.sph.equation.precomputed_symbols), *)
(* how a Group derives the arrays it declares (GroupModel) and the code's  *)
(* fail-fast checks (FailFastModel); a divergence of the code from M that  *)
(* leaves P intact is MODEL-DRIFT, never a violation.                      *)
(***************************************************************************)
EXTENDS Integers, Sequences, FiniteSets

Range(s) == {s[i] : i \in 1 .. Len(s)}

-----------------------------------------------------------------------------
(* Precomputed symbols: the properties of the destination (d) and source   *)
(* (s) array a symbol reads, and the symbols it is computed from.          *)
SymTab == [
    HIJ     |-> [d |-> {"h"}, s |-> {"h"}, deps |-> {}],
    EPS     |-> [d |-> {}, s |-> {}, deps |-> {"HIJ"}],
    RHOIJ   |-> [d |-> {"rho"}, s |-> {"rho"}, deps |-> {}],
    RHOIJ1  |-> [d |-> {}, s |-> {}, deps |-> {"RHOIJ"}],
    XIJ     |-> [d |-> {"x", "y", "z"}, s |-> {"x", "y", "z"}, deps |-> {}],
    VIJ     |-> [d |-> {"u", "v", "w"}, s |-> {"u", "v", "w"}, deps |-> {}],
    R2IJ    |-> [d |-> {}, s |-> {}, deps |-> {"XIJ"}],
    RIJ     |-> [d |-> {}, s |-> {}, deps |-> {"R2IJ"}],
    WIJ     |-> [d |-> {}, s |-> {}, deps |-> {"XIJ", "RIJ", "HIJ"}],
    WDP     |-> [d |-> {}, s |-> {}, deps |-> {"XIJ", "HIJ"}],
    WI      |-> [d |-> {"h"}, s |-> {}, deps |-> {"XIJ", "RIJ"}],
    WJ      |-> [d |-> {}, s |-> {"h"}, deps |-> {"XIJ", "RIJ"}],
    WDASHI  |-> [d |-> {"h"}, s |-> {}, deps |-> {"RIJ"}],
    WDASHJ  |-> [d |-> {}, s |-> {"h"}, deps |-> {"RIJ"}],
    WDASHIJ |-> [d |-> {}, s |-> {}, deps |-> {"RIJ", "HIJ"}],
    DWIJ    |-> [d |-> {}, s |-> {}, deps |-> {"XIJ", "RIJ", "HIJ"}],
    DWI     |-> [d |-> {"h"}, s |-> {}, deps |-> {"XIJ", "RIJ"}],
    DWJ     |-> [d |-> {}, s |-> {"h"}, deps |-> {"XIJ", "RIJ"}],
    GHI     |-> [d |-> {"h"}, s |-> {}, deps |-> {"XIJ", "RIJ"}],
    GHJ     |-> [d |-> {}, s |-> {"h"}, deps |-> {"XIJ", "RIJ"}],
    GHIJ    |-> [d |-> {}, s |-> {}, deps |-> {"XIJ", "RIJ", "HIJ"}]]
SymNames == DOMAIN SymTab

\* a symbol is computed from other symbols: everything reachable
RECURSIVE Close(_)
Close(S) ==
    LET T == S \cup UNION {SymTab[x].deps : x \in S}
    IN IF T = S THEN S ELSE Close(T)

\* the precomputed symbols an equation's loop() asks for
SymsOf(eq) == Range(eq.syms) \cap SymNames
Implied(eq, role) ==
    UNION {IF role = "d" THEN SymTab[x].d ELSE SymTab[x].s :
           x \in Close(SymsOf(eq))}

\* Required(eq, role): the names the destination (role "d") / every source
\* (role "s") array must have for equation eq: the explicit d_* / s_*
\* arguments and what the symbols it uses read.
Required(eq, role) ==
    (IF role = "d" THEN Range(eq.d) ELSE Range(eq.s)) \cup Implied(eq, role)

-----------------------------------------------------------------------------
(* (P) the property *)
ArrNames(c) == {a.name : a \in Range(c.arrays)}
Props(c, n) == UNION {Range(a.props) : a \in {b \in Range(c.arrays) :
                                                  b.name = n}}
NoArray == {"<no such array>"}
Miss(c, need, n) == IF n \in ArrNames(c) THEN need \ Props(c, n) ELSE NoArray

Wit(cls, role, n, miss) ==
    IF miss = {} THEN {}
    ELSE {[cls |-> cls, role |-> role, array |-> n, missing |-> miss]}

EqWitnesses(c, eq) ==
    Wit(eq.cls, "dest", eq.dest, Miss(c, Required(eq, "d"), eq.dest))
    \cup UNION {Wit(eq.cls, "source", n, Miss(c, Required(eq, "s"), n)) :
                n \in Range(eq.sources)}
StepNames(st) == UNION {Range(m.names) : m \in Range(st.methods)}
StepWitnesses(c, st) ==
    Wit(st.cls, "stepper", st.array, Miss(c, StepNames(st), st.array))

\* the offending (equation | stepper, role, array, missing names)
Witnesses(c) ==
    UNION {EqWitnesses(c, eq) : eq \in Range(c.eqs)}
    \cup UNION {StepWitnesses(c, st) : st \in Range(c.steppers)}

P_SetUp(c) == c.setup.ok
\* every equation's Required(dest role) is in arrays[dest],
\* Required(source role) in arrays[s] for each source, every stepper's names
\* in its array; every dest / source / stepper array exists
P_Complete(c) == c.setup.ok => Witnesses(c) = {}
P_Generated(c) == c.gen.done => c.gen.ok
\* per-array data: every property holds one value (x stride) per particle of
\* ITS array; orig_idx, where a scheme adds it, is either left untouched
\* (all 0: IISPHScheme leaves the filling to create_particles, see
\* examples/taylor_green.py) or the particle's own index in its own array
PerArrayBad(c) ==
    {a.name : a \in {b \in Range(c.arrays) :
        \/ \E g \in Range(b.lens) : g.size # b.n
        \/ /\ "orig_idx" \in Range(b.props)
           /\ b.idx # [i \in 1 .. b.n |-> i - 1]
           /\ b.idx # [i \in 1 .. b.n |-> 0]}}
P_PerArray(c) == c.setup.ok => PerArrayBad(c) = {}

\* strides: a method that addresses name[K*idx + j] needs K values per
\* particle (eq.need / method.need, read off the method's source); the
\* array must have declared the property with a stride >= K
DeclStride(c, n, p) ==
    LET S == {x \in UNION {Range(a.strides) :
                           a \in {b \in Range(c.arrays) : b.name = n}} :
              x.p = p}
    IN IF S = {} THEN 1 ELSE (CHOOSE x \in S : TRUE).k
SWit(c, cls, role, n, nd) ==
    IF n \in ArrNames(c) /\ nd.p \in Props(c, n)
       /\ DeclStride(c, n, nd.p) < nd.k
    THEN {[cls |-> cls, role |-> role, array |-> n, prop |-> nd.p,
           need |-> nd.k, have |-> DeclStride(c, n, nd.p)]}
    ELSE {}
EqStrideWitnesses(c, eq) ==
    UNION {IF nd.r = "d" THEN SWit(c, eq.cls, "dest", eq.dest, nd)
           ELSE UNION {SWit(c, eq.cls, "source", n, nd) :
                       n \in Range(eq.sources)} : nd \in Range(eq.need)}
StepStrideWitnesses(c, st) ==
    UNION {UNION {SWit(c, st.cls, "stepper", st.array, nd) :
                  nd \in Range(m.need)} : m \in Range(st.methods)}
StrideWitnesses(c) ==
    UNION {EqStrideWitnesses(c, eq) : eq \in Range(c.eqs)}
    \cup UNION {StepStrideWitnesses(c, st) : st \in Range(c.steppers)}
P_Strides(c) == c.setup.ok => StrideWitnesses(c) = {}
\* "unavailable": the run needs a package that is not installed here
P_RunFinite(c) == c.run.done => c.run.kind \in {"ok", "unavailable"}

Clauses == {"SetUp", "Complete", "PerArray", "Strides", "Generated",
            "RunFinite"}
Failed(c) ==
    {n \in Clauses :
        ~ CASE n = "SetUp"     -> P_SetUp(c)
            [] n = "Complete"  -> P_Complete(c)
            [] n = "PerArray"  -> P_PerArray(c)
            [] n = "Strides"   -> P_Strides(c)
            [] n = "Generated" -> P_Generated(c)
            [] n = "RunFinite" -> P_RunFinite(c)}

-----------------------------------------------------------------------------
(* (M) mechanism: what the code derives and checks.                        *)

\* the code's own table of precomputed symbols, as recorded
RealSymTab(c) ==
    [x \in {e.sym : e \in Range(c.symtab)} |->
        LET e == CHOOSE e \in Range(c.symtab) : e.sym = x
        IN [d |-> Range(e.d), s |-> Range(e.s), deps |-> Range(e.deps)]]
SymTabAgrees(c) == RealSymTab(c) = SymTab

\* Group([eq]).get_array_names(): explicit names and the arrays of the
\* (closed) precomputed symbols
GroupAgrees(c) ==
    \A eq \in Range(c.eqs) :
        /\ Required(eq, "d") = Range(eq.gd)
        /\ Required(eq, "s") = Range(eq.gs)

\* check_equation_array_properties looks at the EXPLICIT names only (the
\* symbol-implied ones are not checked: C20), equation by equation in
\* evaluation order; _check_arrays_for_properties then checks the steppers.
ExplicitMiss(c, eq) ==
    Miss(c, Range(eq.d), eq.dest) \cup
    UNION {Miss(c, Range(eq.s), n) : n \in Range(eq.sources)}
RejectedEqs(c) == {i \in 1 .. Len(c.eqs) : ExplicitMiss(c, c.eqs[i]) # {}}
RejectedSteppers(c) ==
    {st \in Range(c.steppers) : Miss(c, StepNames(st), st.array) # {}}
Min(S) == CHOOSE x \in S : \A y \in S : x <= y
FailFastModel(c) ==
    IF RejectedEqs(c) # {}
    THEN [kind |-> "rejected", eq |-> {c.eqs[Min(RejectedEqs(c))].cls}]
    ELSE IF RejectedSteppers(c) # {}
    THEN [kind |-> "rejected", eq |-> {st.cls : st \in RejectedSteppers(c)}]
    ELSE [kind |-> "ok", eq |-> {""}]
FailFastAgrees(c) ==
    c.gen.done =>
        LET m == FailFastModel(c)
        IN IF m.kind = "rejected"
           THEN c.gen.kind = "rejected" /\ c.gen.eq \in m.eq
           ELSE c.gen.kind # "rejected"

Drift(c) ==
    {n \in {"SymTab", "Group", "FailFast"} :
        ~ CASE n = "SymTab"   -> SymTabAgrees(c)
            [] n = "Group"    -> GroupAgrees(c)
            [] n = "FailFast" -> FailFastAgrees(c)}

-----------------------------------------------------------------------------
(* Findings of known_findings.json, by signature: (scheme class, option    *)
(* condition, equation class, array role, array, missing names).  Only     *)
(* findings whose status is "known" (their ids are passed as K) may mask a *)
(* failure, and only a failure that consists of exactly such witnesses.    *)
Opt(c, k) ==
    LET S == {o \in Range(c.opts) : o.k = k}
    IN IF S = {} THEN "" ELSE (CHOOSE o \in S : TRUE).v

KnownSigs == {
    \* GTVFScheme.setup_properties declares V for the solids only; with a
    \* solid array and nu > 0 SolidWallNoSlipBC(dest = fluid) reads d_V
    [id |-> "C12-gtvf-fluid-V", scheme |-> "GTVFScheme",
     cls |-> "SolidWallNoSlipBC", role |-> "dest", array |-> "fluid",
     missing |-> {"V"}],
    \* EDACScheme.setup_properties adds the wall normals of the inviscid
    \* solids to the TVF property list only; the external-flow equations
    \* (pb = 0) use NoSlipVelocityExtrapolation on them all the same
    [id |-> "C12-edac-external-inviscid-normals", scheme |-> "EDACScheme",
     cls |-> "NoSlipVelocityExtrapolation", role |-> "dest",
     array |-> "wall", missing |-> {"xn", "yn", "zn"}],
    \* UpdateGhostProps of tsph.py / psph.py (has_ghosts) copies d_psumdh,
    \* a property no setup_properties declares (psph: dpsumdh)
    [id |-> "C12-tsph-ghost-psumdh", scheme |-> "TSPHScheme",
     cls |-> "UpdateGhostProps", role |-> "dest", array |-> "fluid",
     missing |-> {"psumdh"}],
    [id |-> "C12-psph-ghost-psumdh", scheme |-> "PSPHScheme",
     cls |-> "UpdateGhostProps", role |-> "dest", array |-> "fluid",
     missing |-> {"psumdh"}]}
SigIds == {s.id : s \in KnownSigs}

Zero(v) == v \in {"", "0.0", "0", "None"}
Cond(id, c) ==
    CASE id = "C12-gtvf-fluid-V" ->
           c.solids /\ ~ Zero(Opt(c, "nu"))
      [] id = "C12-edac-external-inviscid-normals" ->
           Zero(Opt(c, "pb")) /\ Opt(c, "inviscid_solids") = "wall"
      [] id = "C12-tsph-ghost-psumdh" -> Opt(c, "has_ghosts") = "True"
      [] id = "C12-psph-ghost-psumdh" -> Opt(c, "has_ghosts") = "True"
      [] OTHER -> FALSE

\* the role an array plays (a signature names the role: with several
\* fluids the same witness appears once per fluid array)
ArrRole(n) ==
    CASE n \in {"fluid", "fluid2", "fluid3"} -> "fluid"
      [] n \in {"solid", "solid2"} -> "solid"
      [] OTHER -> n
SigsOf(c, w, K) ==
    {s.id : s \in {t \in KnownSigs :
        /\ t.id \in K /\ t.scheme = c.scheme /\ Cond(t.id, c)
        /\ t.cls = w.cls /\ t.role = w.role /\ t.array = ArrRole(w.array)
        /\ t.missing = w.missing}}

\* a failure is explained when it is nothing but: witnesses each of which
\* carries a known signature, and - if code generation failed - the code's
\* own rejection of one of those very equations
Explained(c, K) ==
    LET f == Failed(c)
        w == Witnesses(c)
    IN /\ f # {} /\ f \subseteq {"Complete", "Generated"}
       /\ "Complete" \in f
       /\ \A x \in w : SigsOf(c, x, K) # {}
       /\ "Generated" \in f =>
              c.gen.kind = "rejected" /\ c.gen.eq \in {x.cls : x \in w}
KnownHit(c, K) == UNION {SigsOf(c, x, K) : x \in Witnesses(c)}

Verdict(c, K) ==
    LET f == Failed(c)
        ex == Explained(c, K)
    IN [id |-> c.id, failed |-> f,
        witnesses |-> IF c.setup.ok THEN Witnesses(c) ELSE {},
        badarrays |-> IF c.setup.ok THEN PerArrayBad(c) ELSE {},
        strides |-> IF c.setup.ok THEN StrideWitnesses(c) ELSE {},
        explained |-> ex,
        known |-> IF ex THEN KnownHit(c, K) ELSE {},
        neqs |-> Len(c.eqs),
        nimplied |-> Cardinality(UNION {Implied(eq, "d") \cup Implied(eq, "s")
                                        : eq \in Range(c.eqs)})]
=============================================================================
