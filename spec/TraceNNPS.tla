----------------------------- MODULE TraceNNPS -----------------------------
(***************************************************************************)
(* Validates neighbour queries (C01) and spatial re-ordering (C17)         *)
(* recorded from the real NNPS classes (checks/c01_driver.py).  One record *)
(* per (scenario, configuration): for every step of the history the        *)
(* projected arrays (integer lattice coordinates) and the neighbour list   *)
(* returned for every (dst, src, i).                                       *)
(***************************************************************************)
EXTENDS Integers, Sequences, FiniteSets, TLC, Json, IOUtils, TLCExt

\* the mechanism constants of NNPS.tla are irrelevant for trace checking
Dim == 3  L == 1  MaxN == 0  MaxN2 == 0  HVals == {1}  RS == 2  Depth == 0
VARIABLES arr, cell, org, bins, fresh
INSTANCE NNPS

Traces == ndJsonDeserialize(IOEnv.TRACE_FILE)
VARIABLE tid

\* failing queries of one step: <<d, s, i, kinds>>
StepFails(A, rs, results) ==
    {<<results[k][1], results[k][2], results[k][3], QueryFail(A, rs, results[k])>> :
        k \in {k \in DOMAIN results : QueryFail(A, rs, results[k]) # {}}}

Kinds(F) == UNION {f[4] : f \in F}

ReorderFails(st) ==
    UNION {LET r == st.reorder[k]
               a == st.arrays[r.a + 1]
               b == st.arrays_reordered[r.a + 1]
           IN (IF ~IsPermutation(r.indices, NP(a)) THEN {"not-a-permutation"} ELSE {}) \cup
              (IF ~SameBag(RowsOf(a), RowsOf(b)) THEN {"particles-changed"} ELSE {}) \cup
              (IF ~r.together THEN {"strided-values-split"} ELSE {}) \cup
              (IF ~RealsFirst(b, r.nreal) THEN {"reals-not-first"} ELSE {})
           : k \in DOMAIN st.reorder}

ZFamily == {"zo", "ezo", "sfc"}
\* largest number of particles at one position in any step of the plan
MaxMult(plan) ==
    LET pts(st) == [a \in DOMAIN st |-> [r \in DOMAIN st[a].x |->
                        <<st[a].x[r], st[a].y[r], st[a].z[r]>>]]
        all(st) == UNION {{pts(st)[a][r] : r \in DOMAIN pts(st)[a]} : a \in DOMAIN st}
        mult(st, p) == Cardinality({<<a, r>> \in UNION {{<<a, r>> : r \in DOMAIN st[a].x} :
                                        a \in DOMAIN st} : pts(st)[a][r] = p})
        ms == UNION {{mult(plan[k], p) : p \in all(plan[k])} : k \in DOMAIN plan}
    IN IF ms = {} THEN 0 ELSE CHOOSE m \in ms : \A v \in ms : v <= m

(* Known findings (known_findings.json), as signatures:                    *)
(*  C01-zorder-cross-array: Z-order family, queries with dst array # src   *)
(*    array miss neighbours (never extras, same-array queries exact)       *)
(*  C01-zorder-subdivision: ZOrderNNPS / ExtendedZOrderNNPS with H >= 2    *)
(*    miss neighbours                                                      *)
(*  C01-zorder-empty-array: Z-order family crashes when an array is empty  *)
(*  C01-octree-coincident: octree classes crash when at least              *)
(*    leaf_max_particles particles share one position                      *)
(*  C01-ezo-threaded-cache: ExtendedZOrderNNPS crashes when the cache is   *)
(*    filled from several threads                                          *)
KnownQ(x, kinds, cross) ==
    (IF x.cls \in ZFamily /\ kinds # {} /\ kinds \subseteq {"missing"} /\ cross
     THEN {"C01-zorder-cross-array"} ELSE {}) \cup
    (IF x.cls \in {"zo", "ezo"} /\ x.H >= 2 /\ kinds # {} /\ kinds \subseteq {"missing"}
     THEN {"C01-zorder-subdivision"} ELSE {}) \cup
    \* not thread safe: wrong lists (or a crash) when the cache is filled by
    \* several threads
    (IF x.cls = "ezo" /\ x.threads > 1 /\ kinds # {}
     THEN {"C01-ezo-threaded-cache"} ELSE {})
KnownCrash(x) ==
    (IF x.cls \in ZFamily /\ x.anyempty THEN {"C01-zorder-empty-array"} ELSE {}) \cup
    (IF x.cls \in {"oct", "coct"} /\ MaxMult(x.plan) >= x.leaf
     THEN {"C01-octree-coincident"} ELSE {}) \cup
    (IF x.cls = "ezo" /\ x.threads > 1 THEN {"C01-ezo-threaded-cache"} ELSE {})

Verdict0(x) ==
    IF "crash" \in DOMAIN x THEN
        [sid |-> x.sid, cfg |-> x.cfg, failed |-> {"crash"}, queries |-> {},
         nq |-> 0, cross |-> FALSE, reorder |-> {}, after |-> {}]
    ELSE IF "error" \in DOMAIN x THEN
        [sid |-> x.sid, cfg |-> x.cfg, failed |-> {"exception"}, queries |-> {},
         nq |-> 0, cross |-> FALSE, reorder |-> {}, after |-> {}]
    ELSE IF "unsupported" \in DOMAIN x THEN
        [sid |-> x.sid, cfg |-> x.cfg, failed |-> {}, queries |-> {},
         nq |-> 0, cross |-> FALSE, reorder |-> {"unsupported"}, after |-> {}]
    ELSE
    LET F == UNION {StepFails(x.steps[k].arrays, x.rs, x.steps[k].results) :
                        k \in DOMAIN x.steps}
        inc == {k \in DOMAIN x.steps :
                   ~AllQueried(x.steps[k].arrays, x.steps[k].results)}
        hasre == \E k \in DOMAIN x.steps : "reorder" \in DOMAIN x.steps[k]
        RF == IF hasre THEN UNION {ReorderFails(x.steps[k]) : k \in DOMAIN x.steps}
              ELSE {}
        AF == IF hasre
              THEN UNION {StepFails(x.steps[k].arrays_after, x.rs,
                                    x.steps[k].results_after) : k \in DOMAIN x.steps}
              ELSE {}
    IN [sid |-> x.sid, cfg |-> x.cfg,
        failed |-> Kinds(F) \cup (IF inc # {} THEN {"query-not-answered"} ELSE {}),
        queries |-> IF F = {} THEN {} ELSE {CHOOSE f \in F : TRUE},
        nq |-> Cardinality(F),
        cross |-> F # {} /\ \A f \in F : f[1] # f[2],
        reorder |-> RF,
        after |-> Kinds(AF),
        aftercross |-> AF # {} /\ \A f \in AF : f[1] # f[2]]

Verdict(x) ==
    LET v == Verdict0(x)
    IN [sid |-> v.sid, cfg |-> v.cfg, failed |-> v.failed, queries |-> v.queries,
        nq |-> v.nq, reorder |-> v.reorder, after |-> v.after,
        known |-> IF v.failed = {"crash"} THEN KnownCrash(x)
                  ELSE KnownQ(x, v.failed, v.cross),
        known_after |-> IF "aftercross" \in DOMAIN v
                        THEN KnownQ(x, v.after, v.aftercross) ELSE {}]

TInit == tid \in 1..Len(Traces) /\ TLCSet(tid, Verdict(Traces[tid]))
         /\ arr = <<>> /\ cell = 1 /\ org = 0 /\ bins = <<>> /\ fresh = TRUE
TNext == FALSE /\ UNCHANGED <<tid, arr, cell, org, bins, fresh>>
Report == \A i \in 1..Len(Traces) : PrintT(<<"VERDICT", ToJson(TLCGet(i))>>)
=============================================================================
