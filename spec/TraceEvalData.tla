--------------------------- MODULE TraceEvalData ---------------------------
(***************************************************************************)
(* C02: verdicts over cases recorded by checks/c02_driver.py.              *)
(*                                                                         *)
(* kind = "probe" (stage 1, three-way, exact): a probe program in the IR   *)
(*   of EvalData.tla, lattice data, the state left by the compiled code    *)
(*   (impl), the state left by the reference executor (ref), the executor's *)
(*   hook-order log (reflog), ratbits = number of stored doubles on which  *)
(*   impl and ref differ bit for bit, the symbol table extracted from the  *)
(*   precomputed_symbols() and the evaluation orders the real Group chose. *)
(*   TLC computes Eval(x) and demands  Eval = impl = ref.                  *)
(* kind = "class" (stage 2): one shipped Equation class x kernel x dim:    *)
(*   per property the measured disagreement between the compiled code and  *)
(*   the (stage-1 bound) reference executor as scaled integers.            *)
(***************************************************************************)
EXTENDS EvalData, Json, IOUtils, TLCExt

Traces == ndJsonDeserialize(IOEnv.TRACE_FILE)
VARIABLE tid

\* F(v) with v evaluated once
Bind(v, F(_)) == CHOOSE r \in {F(u) : u \in {v}} : TRUE

Failed(x) == "crash" \in DOMAIN x \/ "error" \in DOMAIN x

ValAt(S, m) ==      \* m = <<array, "p"|"c", name, index>>, S in arr layout (0..)
    IF m[2] = "p" THEN S[m[1]].p[m[3]][m[4]] ELSE S[m[1]].c[m[3]][m[4]]
RecAt(R, m) ==      \* the same position of a recorded state (1..)
    IF m[2] = "p" THEN R[m[1] + 1].p[m[3]][m[4]] ELSE R[m[1] + 1].c[m[3]][m[4]]

ProbeVerdict(x) ==
    IF Failed(x)
    THEN [id |-> x.id, kind |-> "probe", ok |-> FALSE, crashed |-> TRUE,
          hist_ok |-> FALSE, route |-> "?", known |-> {}, cfirst |-> <<>>,
          impl_ok |-> FALSE, ref_ok |-> FALSE, agree |-> FALSE, order_ok |-> FALSE, symtab_ok |-> FALSE,
          usable |-> TRUE, nimpl |-> 0, nref |-> 0, first |-> <<>>, nev |-> 0, nloop |-> 0,
          orderdiff |-> 0]
    ELSE
    Bind(<<Arr0(x), NbrsOfData(Arr0(x), x.stride)>>, LAMBDA c1 :
    Bind(Run(NProg(x.prog), c1[1], c1[2], x.env).log, LAMBDA log :
    Bind(EvalLog(x, log, c1[2]), LAMBDA W :
    Bind(<<Mismatch(x, W.A, x.impl), Mismatch(x, W.A, x.ref),
           OrderDiff(NProg(x.prog), x.reflog, log)>>, LAMBDA c2 :
    LET mi == c2[1]
        mr == c2[2]
        df == c2[3]
        st == SymTabDiff(x) = {} /\ SymOrderBad(x) = {}
        usable == ~W.bad /\ WellFormed(x)       \* else: a generator fault, no verdict
        m == CHOOSE v \in mi \cup mr : TRUE
        \* Known findings (C semantics of the generated code where the Python
        \* source means something else): the executor agrees with Eval and the
        \* compiled state is EXACTLY the state obtained when the constructs in
        \* `need` are evaluated with C semantics; `need` is the set of
        \* constructs that cannot be dropped from that explanation
        full == SetOfSeq(x.cops)
        fits(M) == Mismatch(x, EvalLogM(x, log, c1[2], M).A, x.impl) = {}
        need == IF mi # {} /\ full # {} /\ mr = {} /\ df = 0 /\ st /\ x.oldtouched = 0
                THEN (IF fits(full) THEN {c \in full : ~fits(full \ {c})} ELSE {})
                ELSE {}
        fid(c) == CASE c = "div" -> "C02-cdivision-int"
                    [] c = "floor" -> "C02-cdivision-floor"
                    [] c = "ovf" -> "C02-long-overflow"
    IN [id |-> x.id, kind |-> "probe", crashed |-> FALSE,
        ok |-> mi = {} /\ mr = {} /\ df = 0 /\ st /\ x.ratbits = 0 /\ x.oldtouched = 0,
        \* history: compute() after update_particle_arrays leaves the replaced
        \* arrays (properties and constants) as they were
        hist_ok |-> x.oldtouched = 0, route |-> x.route,
        known |-> {fid(c) : c \in need},
        \* diagnostics: where the compiled state also differs from the state
        \* under C semantics of all the module's C-sensitive constructs
        cfirst |-> IF mi = {} \/ full = {} \/ need # {} THEN <<>>
                   ELSE LET Wc == EvalLogM(x, log, c1[2], full).A
                            mc == Mismatch(x, Wc, x.impl)
                            k == CHOOSE v \in mc : TRUE
                        IN IF mc = {} THEN <<>>
                           ELSE <<[arr |-> k[1], what |-> k[2], name |-> k[3], index |-> k[4] - 1,
                                   cwant |-> <<ValAt(Wc, k)>>, impl |-> <<RecAt(x.impl, k)>>]>>,
        impl_ok |-> mi = {}, ref_ok |-> mr = {}, agree |-> x.ratbits = 0, order_ok |-> df = 0,
        symtab_ok |-> st, usable |-> usable,
        nimpl |-> Cardinality(mi), nref |-> Cardinality(mr),
        first |-> IF mi \cup mr = {} THEN <<>>
                  ELSE <<[arr |-> m[1], what |-> m[2], name |-> m[3], index |-> m[4] - 1,
                          want |-> <<ValAt(W.A, m)>>, impl |-> <<RecAt(x.impl, m)>>,
                          ref |-> <<RecAt(x.ref, m)>>]>>,
        nev |-> Len(log),
        nloop |-> Cardinality({i \in DOMAIN log : log[i].k = "loop"}),
        orderdiff |-> df]))))

(***************************************************************************)
(* Stage 2.  x.props[i] = [n, cnt, nbit, nan, err15, changed, undef, ubit] *)
(*   cnt     entries of property / constant n compared                     *)
(*   undef   entries whose reference value changes when every declared     *)
(*           matrix starts as NaN instead of 0.0: they depend on a local   *)
(*           no statement wrote (the generated C leaves it uninitialised)  *)
(*   ubit    undefined entries on which compiled and reference differ      *)
(*   over the DEFINED entries:                                             *)
(*   nbit    entries whose compiled and reference values are not the same  *)
(*           double (NaN = NaN, -0.0 = 0.0)                                *)
(*   nan     of those, entries where one of the two is NaN / infinite      *)
(*   err15   max |c - r| / max(|c|, |r|, scale of the property) in units   *)
(*           of 1e-15 (capped)                                             *)
(*   changed entries the reference executor changed (non-vacuity)          *)
(* Tolerance clause of the property: exact for arithmetic-only methods     *)
(* (x.arith), to the rounding of libm otherwise (1e-12 relative).          *)
(***************************************************************************)
Tol15 == 1000
Within(arith, p) == /\ p.nan = 0
                    /\ IF arith THEN p.nbit = 0 ELSE p.err15 <= Tol15
\* Known_C02-uninit-declare: the only disagreement is on entries that depend
\* on a declared matrix no executed statement has written
KnownUninit(x) == /\ \A i \in DOMAIN x.props : Within(x.arith, x.props[i])
                  /\ \E i \in DOMAIN x.props : x.props[i].ubit > 0

ClassVerdict(x) ==
    LET bad == IF Failed(x) THEN {"<crash>"}
               ELSE {x.props[i].n : i \in {j \in DOMAIN x.props :
                        ~Within(x.arith, x.props[j]) \/ x.props[j].ubit > 0}}
    IN [id |-> x.id, kind |-> "class", cls |-> x.cls, kernel |-> x.kernel, dim |-> x.dim,
        ok |-> bad = {}, failed |-> bad, crashed |-> Failed(x),
        known |-> IF ~Failed(x) /\ KnownUninit(x) THEN {"C02-uninit-declare"} ELSE {},
        exact |-> ~Failed(x) /\ \A i \in DOMAIN x.props : x.props[i].nbit = 0,
        nontrivial |-> ~Failed(x) /\ \E i \in DOMAIN x.props : x.props[i].changed > 0,
        compared |-> IF Failed(x) THEN 0
                     ELSE LET F[i \in 0..Len(x.props)] ==
                                IF i = 0 THEN 0 ELSE F[i - 1] + x.props[i].cnt
                          IN F[Len(x.props)]]

(***************************************************************************)
(* kind = "order": the reference executor's own log on one of C03's random *)
(* group trees (conditions, iteration, sub-groups, pre/post, update_nnps); *)
(* data layout of TraceAccelEval (1-D, neighbours: |dx| <= 1).             *)
(***************************************************************************)
AbsV(v) == IF v < 0 THEN -v ELSE v
NbrsC03(A) ==
    [t \in UNION {{<<d, s, i>> : i \in 0..(A[d].nall - 1)} : d \in DOMAIN A, s \in DOMAIN A} |->
        {j \in 0..(A[t[2]].nall - 1) : AbsV(A[t[1]].pos[t[3] + 1] - A[t[2]].pos[j + 1]) <= 1}]
OrderVerdict(x) ==
    IF Failed(x) THEN [id |-> x.id, kind |-> "order", ok |-> FALSE, diff |-> -1, vcok |-> FALSE, n |-> 0]
    ELSE Bind(Run(NProg(x.prog), Arr0(x), NbrsC03(Arr0(x)), x.env), LAMBDA r :
         LET df == OrderDiff(NProg(x.prog), x.log, r.log)
         IN [id |-> x.id, kind |-> "order", ok |-> df = 0, diff |-> df,
             vcok |-> \A k \in DOMAIN x.vc :
                        x.vc[k] = (IF \E i \in DOMAIN r.vc : Key(i) = k
                                   THEN r.vc[CHOOSE i \in DOMAIN r.vc : Key(i) = k] ELSE 0),
             n |-> Len(x.log)])

Verdict(x) == CASE x.kind = "probe" -> ProbeVerdict(x)
                [] x.kind = "order" -> OrderVerdict(x)
                [] OTHER -> ClassVerdict(x)

TInit == tid \in 1..Len(Traces) /\ TLCSet(tid, Verdict(Traces[tid]))
TNext == FALSE /\ UNCHANGED tid
Report == \A i \in 1..Len(Traces) : PrintT(<<"VERDICT", ToJson(TLCGet(i))>>)
=============================================================================
