---------------------------- MODULE AccelEvalMC ----------------------------
(* Design check for C03: the executor of AccelEval.tla (shaped like the     *)
(* generated code) is run on every program of a small grammar and its log   *)
(* must have the documented properties: iteration bounds and stopping rule, *)
(* a false condition silences a group, destination indices stay in the      *)
(* documented range, phases in order, equations in user order.              *)
EXTENDS AccelEval

VARIABLES prog, arr, env, res
vars == <<prog, arr, env, res>>

HookSets == {{"initialize", "loop"}, {"py_initialize", "loop_all", "post_loop"},
             {"initialize_pair", "loop", "reduce"}}
Bools == BOOLEAN
MkEq(i, d, ss, hs) == [eid |-> i, dest |-> d, srcs |-> ss, hooks |-> hs]
MkGrp(gid, real, st, sp, it, mn, mx, c, pre, post, upd, sub, eqs) ==
    [gid |-> gid, real |-> real, start |-> st, stop |-> sp, sprop |-> FALSE,
     pprop |-> FALSE, iterate |-> it, minit |-> mn, maxit |-> mx, hascond |-> c,
     haspre |-> pre, haspost |-> post, upd |-> upd, sub |-> sub, eqs |-> eqs]

Arrays == [a \in 0..1 |-> [nreal |-> 2, nall |-> 3, stv |-> 0, spv |-> 3,
                           pos |-> <<0, 1, 2>>]]
Nbrs == [t \in {<<d, s, i>> : d \in 0..1, s \in 0..1, i \in 0..2} |->
            {j \in 0..2 : (t[3] - j) \in {-1, 0, 1}}]

HS == <<{"initialize", "loop"}, {"py_initialize", "loop_all", "post_loop"},
        {"initialize_pair", "loop", "reduce"}>>
Init ==
    /\ arr = Arrays
    /\ \E real \in Bools, rng \in {<<0, -1>>, <<1, 2>>}, it \in Bools,
          mm \in {<<0, 1>>, <<1, 2>>, <<2, 2>>}, c \in Bools, pre \in Bools,
          sub \in Bools, hk \in 1..3, d2 \in 0..1 :
        LET e1 == MkEq(1, 0, <<0, 1>>, HS[hk])
            e2 == MkEq(2, d2, <<1>>, HS[(hk % 3) + 1])
            flat == MkGrp(10, real, rng[1], rng[2], it, mm[1], mm[2], c, pre, pre, sub,
                          <<>>, <<e1, e2>>)
            nested == MkGrp(10, real, rng[1], rng[2], it, mm[1], mm[2], c, pre, pre, TRUE,
                       <<MkGrp(11, real, rng[1], rng[2], FALSE, 0, 1, c, pre, FALSE, FALSE, <<>>, <<e1>>),
                         MkGrp(12, ~real, 0, -1, FALSE, 0, 1, FALSE, FALSE, pre, TRUE, <<>>, <<e2>>)>>,
                       <<>>)
        IN prog = <<IF sub THEN nested ELSE flat>>
    /\ \E c1 \in Bools, v1 \in [1..2 -> Bools], v2 \in {<<TRUE, TRUE>>, <<FALSE, TRUE>>} :
          env = [cond |-> [k \in {"10", "11", "12"} |-> <<c1, TRUE>>],
                 conv |-> [k \in {"1", "2"} |-> IF k = "1" THEN v1 ELSE v2]]
    /\ res = Run(prog, arr, Nbrs, env)
Next == UNCHANGED vars
Spec == Init /\ [][Next]_vars

G == prog[1]
Executed == ~G.hascond \/ env.cond["10"][1]
AllConv(p) == env.conv["1"][p] /\ env.conv["2"][p]

\* number of passes = number of "pre"/first-equation blocks; with the scripts
\* consumed only from pass minit on
NAsk == IF 1 \in DOMAIN res.vc THEN res.vc[1] ELSE 0
NPassOf == IF G.minit > 1 THEN G.minit - 1 + NAsk ELSE NAsk
IterationRule ==
    (Executed /\ G.iterate) =>
        /\ NAsk >= 1 /\ NPassOf >= G.minit /\ NPassOf <= G.maxit
        /\ (AllConv(NAsk) \/ NPassOf = G.maxit)
        /\ \A p \in 1..(NAsk - 1) : ~AllConv(p)
        /\ Cnt(res.vc, 2) = NAsk          \* every equation is asked, every check
NoIterationNoQuestions == (~G.iterate \/ ~Executed) => res.vc = <<>>
FalseConditionSilences ==
    ~Executed => \A i \in DOMAIN res.log : res.log[i].k = "condition"
IndexRange ==
    \A i \in DOMAIN res.log :
        res.log[i].d >= 0 =>
            \E g \in {G} \cup Range(G.sub) : \E e \in Range(g.eqs) :
                /\ e.eid = res.log[i].id
                /\ res.log[i].d >= Lo(g, arr, e.dest) /\ res.log[i].d < Hi(g, arr, e.dest)
SourcesAllContribute ==   \* ghosts included: the neighbour sets cover 0..nall-1
    \A i \in DOMAIN res.log : res.log[i].k = "loop" => res.log[i].s \in 0..2
PhaseRank(k) == CASE k = "py_initialize" -> 1 [] k = "initialize" -> 2
                  [] k = "initialize_pair" -> 3 [] k = "loop_all" -> 3 [] k = "loop" -> 3
                  [] k = "post_loop" -> 4 [] k = "reduce" -> 5 [] OTHER -> 0
\* between two group-level events, the events of one destination are ordered
\* by phase
PhaseOrder ==
    \A i, j \in DOMAIN res.log :
        (i < j /\ ~G.iterate /\ res.log[i].id \in {1, 2} /\ res.log[j].id = res.log[i].id
         /\ \A m \in i..j : res.log[m].k \notin {"pre", "post", "condition",
                                                  "update_domain", "nnps_update"}
         /\ \A m2 \in i..j : res.log[m2].id \in {1, 2})
        => \/ PhaseRank(res.log[i].k) <= PhaseRank(res.log[j].k)
           \/ \E m3 \in i..j : res.log[m3].k = "py_initialize" /\ m3 > i
SelfCanon == Matches(prog, arr, Nbrs, env, res.log)
=============================================================================
