----------------------------- MODULE OutputMC -----------------------------
(***************************************************************************)
(* Design check for C11: a mechanism-level model of dump and load, shaped  *)
(* like pysph/solver/output.py, must satisfy the declarative round-trip    *)
(* relation of Output.tla for every array of a small universe and every    *)
(* combination of the options.                                             *)
(*                                                                         *)
(* dump  (Output.dump): the meta-data of *all* properties is captured      *)
(*       separately (get_particles_info: type, default, stride per         *)
(*       property, constants, output list) from the stored columns         *)
(*       (get_property_arrays(all=detailed, only_real)).  The npz writer   *)
(*       pickles both; the hdf5 writer creates one dataset per property    *)
(*       carrying the meta-data as attributes and a `stored` flag.         *)
(* load  rebuilds the array by a sequence of add_property calls (in any    *)
(*       order: dictionary / group iteration order), which is where the    *)
(*       sizes, the default filling and num_real_particles come from:      *)
(*       npz : ParticleArray(name, constants, **props) = add_property for  *)
(*             every property (data or None), then align_particles, then   *)
(*             set_output_arrays(saved list);                              *)
(*       hdf5: ParticleArray(name, constants) (tag exists, no particles),  *)
(*             add_property per dataset, set_output_arrays.                *)
(*                                                                         *)
(* Repaired = TRUE : the hdf5 writer/reader as they are since the three    *)
(*   fix commits (default kept for properties that are not stored, an      *)
(*   `output` flag per dataset, align_particles after loading).            *)
(*   Invariant: RoundTrip.  This is the configuration the check runs.      *)
(* Repaired = FALSE: the hdf5 reader as it was before the fixes.           *)
(*   Invariant: every failing clause is explained by one of the recorded   *)
(*   finding signatures of Output.tla and npz is exact (shows that the     *)
(*   signatures are the right ones and complete for that mechanism; run    *)
(*   in the thorough tier only).                                           *)
(***************************************************************************)
EXTENDS Output

CONSTANTS MaxN,        \* at most this many particles
          Strides,     \* strides of the two user properties
          Dflts,       \* their defaults
          Repaired

VARIABLES phase, arr, opt, file, ld

vars == <<phase, arr, opt, file, ld>>

User == {"p", "q"}
PNames == User \cup {"tag"}
SD == [t |-> 3, dt |-> 1, count |-> 7]

\* ---- the universe of arrays ----------------------------------------------
\* n particles of which the first nl are Local (aligned), the others Ghost;
\* values identify (property, particle, component); as in recorded cases
\* every value but the tags is a text
MkArr(n, nl, tp, sp, sq, dp, dq, dtag, outs) ==
    LET stride == [tag |-> 1, p |-> sp, q |-> sq]
        base   == [tag |-> 0, p |-> 10, q |-> 20]
    IN [type   |-> [tag |-> "int", p |-> tp, q |-> "double"],
        stride |-> stride,
        dflt   |-> [tag |-> dtag, p |-> ToString(dp), q |-> ToString(dq)],
        len    |-> [x \in PNames |-> n * stride[x]],
        data   |-> [x \in PNames |->
                      IF x = "tag" THEN [i \in 1..n |-> IF i <= nl THEN 0 ELSE 1]
                      ELSE [i \in 1..(n * stride[x]) |-> ToString(base[x] + i)]],
        consts |-> [c |-> <<"5", "6">>],
        outs   |-> outs,
        nreal  |-> nl]

\* dtag: default_particle_tag (the default of the built-in tag property,
\* which exists before any add_property of the loaders)
Arrays == {MkArr(n, nl, tp, sp, sq, dp, dq, dtag, outs) :
             n \in 0..MaxN, nl \in 0..MaxN, tp \in {"double", "int"},
             sp \in Strides, sq \in Strides, dp \in Dflts, dq \in Dflts,
             dtag \in {0, 1}, outs \in SUBSET PNames}
Valid == {a \in Arrays : a.nreal <= N(a)}

Empty == [none |-> TRUE]

\* ---- dump ------------------------------------------------------------------
\* base/utils.py get_particles_info
Info(a) == [props  |-> [x \in Names(a) |->
                          [type |-> a.type[x], default |-> a.dflt[x],
                           stride |-> a.stride[x]]],
            consts |-> a.consts,
            outs   |-> a.outs]
\* ParticleArray.get_property_arrays(all, only_real)
PropArrays(a, all, only_real) ==
    LET props == IF all \/ a.outs = {} THEN Names(a) ELSE a.outs
        num   == IF only_real THEN a.nreal ELSE N(a)
    IN [x \in props |-> SubSeq(a.data[x], 1, num * a.stride[x])]

\* NumpyOutput._dump: particle_data[name]["arrays"] = arrays, pickled
NpzFile(info, cols) == [kind |-> "npz", info |-> info, arrays |-> cols]
\* HDFOutput._dump/_set_properties: one dataset per property of the
\* meta-data, carrying type/default/stride as attributes, a `stored` flag
\* (stored ones hold the data) and - since the fix - an `output` flag saying
\* whether the property is in the output list.  Before the fix the output
\* list was not written at all and the reader took `stored` for it.
HdfFile(info, cols) ==
    [kind   |-> "hdf5",
     consts |-> info.consts,
     dsets  |-> [x \in DOMAIN info.props |->
                   [stored  |-> x \in DOMAIN cols,
                    output  |-> IF Repaired THEN x \in info.outs
                                ELSE x \in DOMAIN cols,
                    data    |-> IF x \in DOMAIN cols THEN cols[x] ELSE <<>>,
                    type    |-> info.props[x].type,
                    default |-> info.props[x].default,
                    stride  |-> info.props[x].stride]]]

\* ---- load: the builder (a ParticleArray under construction) ----------------
\* b = [type, stride, dflt, data : property -> flat values, n, nreal]
B0 == [type |-> <<>>, stride |-> <<>>, dflt |-> <<>>, data |-> <<>>,
       n |-> 0, nreal |-> 0]
Ext(f, k, v) == [x \in DOMAIN f \cup {k} |-> IF x = k THEN v ELSE f[x]]
CountLocal(q) == Cardinality({i \in DOMAIN q : q[i] = Local})

\* ParticleArray.add_property(name, type, default, data, stride); hasd = a
\* default was passed, hasdata = data was passed (not None)
AddProp(b, name, typ, hasd, dfl, stride, hasdata, data) ==
    LET ex  == name \in DOMAIN b.type
        d   == IF hasd THEN dfl ELSE IF ex THEN b.dflt[name] ELSE "0"
        \* an existing carray keeps its C type
        ty  == IF ex THEN b.type[name] ELSE typ
        b1  == [b EXCEPT !.type = Ext(b.type, name, ty),
                         !.stride = Ext(b.stride, name, stride),
                         !.dflt = Ext(b.dflt, name, d)]
        nod == ~hasdata \/ Len(data) = 0
    IN IF b.n = 0
       THEN IF nod
            THEN [b1 EXCEPT !.data = IF ex THEN b.data
                                     ELSE Ext(b.data, name, <<>>)]
            ELSE \* first data: every existing property is resized to the
                 \* new number of particles and filled with its default
                 LET ne == Len(data) \div stride
                     rs == [x \in DOMAIN b.data |->
                              Rep(b.dflt[x], ne * b.stride[x])]
                 IN [b1 EXCEPT !.data = Ext(rs, name, data),
                               !.n = ne,
                               !.nreal = IF name = "tag" THEN CountLocal(data)
                                         ELSE ne]
       ELSE IF nod
            THEN [b1 EXCEPT !.data = IF ex THEN b.data
                                     ELSE Ext(b.data, name,
                                              Rep(d, b.n * stride))]
            ELSE [b1 EXCEPT !.data = Ext(b.data, name, data)]

\* align_particles: the index-array algorithm and the gather (as in
\* ParticleArrayMC.tla), on the rows of the builder
BRow(b, i) == [x \in DOMAIN b.type |-> Chunk(b.data[x], i, b.stride[x])]
AlignIndex(rs) ==
    LET n == Len(rs)
        F[i \in 0..n] ==
          IF i = 0 THEN [ia |-> [k \in 1..n |-> 0], ni |-> 1]
          ELSE LET p == F[i - 1]
               IN IF IsLocal(rs[i])
                  THEN IF i # p.ni
                       THEN [ia |-> [p.ia EXCEPT ![p.ni] = i, ![i] = p.ia[p.ni]],
                             ni |-> p.ni + 1]
                       ELSE [ia |-> [p.ia EXCEPT ![i] = i], ni |-> p.ni + 1]
                  ELSE [ia |-> [p.ia EXCEPT ![i] = i], ni |-> p.ni]
    IN F[n].ia
Flatten(q) ==   \* sequence of tuples -> flat sequence
    LET F[i \in 0..Len(q)] == IF i = 0 THEN <<>> ELSE F[i - 1] \o q[i]
    IN F[Len(q)]
AlignB(b) ==
    LET rs == [i \in 1..b.n |-> BRow(b, i)]
        ia == AlignIndex(rs)
    IN [b EXCEPT !.data = [x \in DOMAIN b.data |->
                             Flatten([i \in 1..b.n |-> rs[ia[i]][x]])],
                 !.nreal = NumLocal(rs)]

\* the constructor always creates tag (pid and gid are left out of the model)
Ctor == AddProp(B0, "tag", "int", TRUE, Local, 1, FALSE, <<>>)

\* add the properties in the order given by the sequence ord
Build(b0, ord, Args(_)) ==
    LET F[i \in 0..Len(ord)] ==
          IF i = 0 THEN b0
          ELSE LET a == Args(ord[i])
               IN AddProp(F[i - 1], ord[i], a.type, a.hasd, a.default,
                          a.stride, a.hasdata, a.data)
    IN F[Len(ord)]

ToArr(b, consts, outs) ==
    [type |-> b.type, stride |-> b.stride, dflt |-> b.dflt,
     len |-> [x \in DOMAIN b.data |-> Len(b.data[x])], data |-> b.data,
     consts |-> consts, outs |-> outs, nreal |-> b.nreal]

\* NumpyOutput._load (version 2): _initialize clears everything, adds every
\* property of the meta-data with name/type/default/stride/data, aligns
LoadNpz(f, ord) ==
    LET Args(x) == [type |-> f.info.props[x].type, hasd |-> TRUE,
                    default |-> f.info.props[x].default,
                    stride |-> f.info.props[x].stride,
                    hasdata |-> x \in DOMAIN f.arrays,
                    data |-> IF x \in DOMAIN f.arrays THEN f.arrays[x] ELSE <<>>]
    IN ToArr(AlignB(Build(B0, ord, Args)), f.info.consts, f.info.outs)

\* HDFOutput._get_particles
LoadHdf(f, ord) ==
    LET Args(x) == LET h == f.dsets[x]
                   IN [type |-> h.type,
                       hasd |-> h.stored \/ Repaired,
                       default |-> h.default, stride |-> h.stride,
                       hasdata |-> h.stored, data |-> h.data]
        b == Build(Ctor, ord, Args)
        outs == {x \in DOMAIN f.dsets : f.dsets[x].output}
    IN ToArr(IF Repaired THEN AlignB(b) ELSE b, f.consts, outs)

Perms(S) == {q \in [1..Cardinality(S) -> S] :
               \A i, j \in DOMAIN q : q[i] = q[j] => i = j}

\* ---- behaviours --------------------------------------------------------------
Init == /\ phase = "new"
        /\ arr \in Valid
        /\ opt \in [fmt : Formats, compress : BOOLEAN, detailed : BOOLEAN,
                    only_real : BOOLEAN]
        /\ file = Empty /\ ld = Empty

Dump == /\ phase = "new"
        /\ LET info == Info(arr)
               cols == PropArrays(arr, opt.detailed, opt.only_real)
           IN file' = IF opt.fmt = "npz" THEN NpzFile(info, cols)
                      ELSE HdfFile(info, cols)
        /\ phase' = "dumped"
        /\ UNCHANGED <<arr, opt, ld>>

Load == /\ phase = "dumped"
        /\ \E ord \in Perms(PNames) :
             ld' = IF file.kind = "npz" THEN LoadNpz(file, ord)
                   ELSE LoadHdf(file, ord)
        /\ phase' = "loaded"
        /\ UNCHANGED <<arr, opt, file>>

Next == Dump \/ Load
Spec == Init /\ [][Next]_vars

\* ---- properties ---------------------------------------------------------------
TheCase == MkCase([names |-> <<"a">>, arrs |-> [a |-> arr]], SD, opt.fmt,
                  opt.compress, opt.detailed, opt.only_real,
                  [names |-> <<"a">>, arrs |-> [a |-> ld]], SD)

InputsDumpable == Dumpable(arr)
\* the mechanism's notion of what is stored is the specification's
StoredAsSpecified ==
    phase = "dumped" =>
      LET cols == IF file.kind = "npz" THEN file.arrays
                  ELSE [x \in {y \in DOMAIN file.dsets : file.dsets[y].stored}
                          |-> file.dsets[x].data]
      IN cols = Stored(arr, opt.detailed, opt.only_real)
\* M => P
RoundTripHolds == phase = "loaded" => Failed(TheCase) = {}
\* as implemented: everything that fails is a known finding, npz is exact
AsIsClassified ==
    phase = "loaded" =>
      /\ Unexplained(TheCase) = {}
      /\ opt.fmt = "npz" => Failed(TheCase) = {}
\* properties that were not stored come back filled with their default
\* (more than the property statement demands; holds for the repaired design.
\* Not for the built-in tag: it exists before the loaders add anything, so a
\* tag column that was not stored is filled with Local by the hdf5 loader
\* even when default_particle_tag is another tag - found by this model)
NotStoredAreDefault ==
    phase = "loaded" /\ Failed(TheCase) = {} =>
      \A x \in (Names(arr) \ StoredCols(arr, opt.detailed)) \ {"tag"} :
        ld.data[x] = Rep(arr.dflt[x], N(ld) * arr.stride[x])
=============================================================================
