------------------------------ MODULE LinAlgMC ------------------------------
(***************************************************************************)
(* Design check of LinAlg.tla: the operators the C13 verdicts rest on are  *)
(* checked against their defining algebraic laws, exhaustively over small  *)
(* integer matrices.  States are matrices (with the value their            *)
(* determinant / characteristic polynomial must have, carried in d);       *)
(* transitions are elementary operations with a known effect on d: row     *)
(* exchange, row negation, row addition, transposition; for symmetric      *)
(* matrices simultaneous row/column permutation and negation.              *)
(*                                                                         *)
(*  kind = "pair2"  : A, B 2x2        products, layouts                    *)
(*  kind = "solve2" : A 2x2, B = b    Cramer, uniqueness, kernel, pivots   *)
(*  kind = "gen3"   : A 3x3           Det (Laplace = Bareiss), adjugate,   *)
(*                                    elimination without row exchange     *)
(*  kind = "sym3"   : A symmetric 3x3 characteristic polynomial, classes   *)
(***************************************************************************)
EXTENDS LinAlg, TLC

CONSTANTS R2,      \* entries of the 2x2 matrices A are in -R2..R2
          R2B,     \* entries of B / b
          R3,      \* entries of the general 3x3 matrices
          RS       \* entries of the symmetric 3x3 matrices
E2 == -R2..R2
E2B == -R2B..R2B
E3 == -R3..R3
ES == -RS..RS

VARIABLES kind, ph, A, B, d
vars == <<kind, ph, A, B, d>>

\* Matrices are filled entry by entry (ph = "fill", A holds the flat list of
\* the entries chosen so far) so that the enumeration is a breadth-first
\* search TLC can run in parallel; the laws are checked when ph = "ready".
Kinds == {"pair2", "solve2", "gen3", "sym3"}
Need(k) == CASE k = "pair2" -> 8 [] k = "solve2" -> 6 [] k = "gen3" -> 9
             [] k = "sym3" -> 6
EntrySet(k, idx) ==
    CASE k \in {"pair2", "solve2"} -> IF idx <= 4 THEN E2 ELSE E2B
      [] k = "gen3" -> E3
      [] k = "sym3" -> ES
BuildA(k, f) ==
    CASE k \in {"pair2", "solve2"} -> Unflat(f, 2, 2)
      [] k = "gen3" -> Unflat(f, 3, 3)
      [] k = "sym3" -> <<<<f[1], f[2], f[3]>>, <<f[2], f[4], f[5]>>,
                         <<f[3], f[5], f[6]>>>>
BuildB(k, f) ==
    CASE k = "pair2" -> <<<<f[5], f[6]>>, <<f[7], f[8]>>>>
      [] k = "solve2" -> <<f[5], f[6]>>
      [] OTHER -> <<>>
Perms3 == {<<1, 2, 3>>, <<1, 3, 2>>, <<2, 1, 3>>, <<2, 3, 1>>, <<3, 1, 2>>,
           <<3, 2, 1>>}
PermRows(M, p) == [i \in 1..Rows(M) |-> M[p[i]]]

Init == kind \in Kinds /\ ph = "fill" /\ A = <<>> /\ B = <<>> /\ d = 0

Fill ==
    /\ ph = "fill"
    /\ \E e \in EntrySet(kind, Len(A) + 1) :
          LET f == Append(A, e)
          IN IF Len(f) < Need(kind)
             THEN A' = f /\ UNCHANGED <<kind, ph, B, d>>
             ELSE /\ ph' = "ready" /\ UNCHANGED kind
                  /\ A' = BuildA(kind, f) /\ B' = BuildB(kind, f)
                  /\ d' = IF kind = "sym3" THEN CharPoly(BuildA(kind, f))
                          ELSE DetL(BuildA(kind, f))

N == Rows(A)
Entries == IF kind = "gen3" THEN E3 ELSE E2

Swap(r, s) == A' = SwapRows(A, r, s) /\ d' = -d
Neg(r) == A' = [A EXCEPT ![r] = [j \in 1..N |-> -A[r][j]]] /\ d' = -d
Transp == A' = Transpose(A) /\ d' = d
AddRow(r, s) ==
    /\ r # s
    /\ \A j \in 1..N : A[r][j] + A[s][j] \in Entries
    /\ A' = [A EXCEPT ![r] = [j \in 1..N |-> A[r][j] + A[s][j]]]
    /\ d' = d
\* symmetric: P^T A P for a transposition P keeps the characteristic polynomial
SymSwap(r, s) ==
    LET p == [i \in 1..3 |-> IF i = r THEN s ELSE IF i = s THEN r ELSE i]
    IN A' = [i \in 1..3 |-> [j \in 1..3 |-> A[p[i]][p[j]]]] /\ d' = d
SymNeg == A' = Scale(-1, A) /\ d' = [c2 |-> -d.c2, c1 |-> d.c1, c0 |-> -d.c0]

Ops ==
    /\ ph = "ready"
    /\ UNCHANGED <<kind, ph, B>>
    /\ \/ /\ kind \in {"solve2", "gen3"}
          /\ \/ \E r, s \in 1..N : r < s /\ Swap(r, s)
             \/ \E r \in 1..N : Neg(r)
             \/ Transp
             \/ \E r, s \in 1..N : AddRow(r, s)
       \/ /\ kind = "sym3"
          /\ \/ \E r, s \in 1..3 : r < s /\ SymSwap(r, s)
             \/ SymNeg

Next == Fill \/ Ops

Spec == Init /\ [][Next]_vars

-----------------------------------------------------------------------------
Ready == ph = "ready"
General == Ready /\ kind \in {"solve2", "gen3"}

\* the determinant reacts to elementary operations as it must; the two
\* independent definitions agree
Inv_Det ==
    (Ready /\ kind # "sym3") => DetL(A) = d /\ DetB(A) = d /\ Det(Transpose(A)) = d

Inv_Product ==
    (Ready /\ kind = "pair2") =>
        /\ Det(MatMul(A, B)) = Det(A) * Det(B)
        /\ MatMul(A, Identity(2)) = A /\ MatMul(Identity(2), A) = A
        /\ Transpose(MatMul(A, B)) = MatMul(Transpose(B), Transpose(A))
        /\ \A k \in 1..2 : Col(MatMul(A, B), k) = MatVec(A, Col(B, k))

\* flat row-major layouts of pysph/sph/wc/linalg.py
Inv_Layout ==
    /\ (Ready /\ kind = "pair2") =>
        /\ Unflat(Flat(A), 2, 2) = A
        /\ FlatMatMul(Flat(A), Flat(B), 2) = Flat(MatMul(A, B))
        /\ FlatMatVec(Flat(A), B[1], 2) = MatVec(A, B[1])
        /\ FlatAugmented(Flat(A), Flat(B), 2, 2, 2) = Flat(Augmented(A, B))
        /\ FlatAugmented(Flat(A), Flat(B), 1, 2, 2)
              = <<A[1][1], B[1][1], B[1][2]>>
        /\ FlatDot(A[1], B[2], 2) = Dot(A[1], B[2])
    /\ (Ready /\ kind = "gen3") =>
        \* n = 2 rows/columns of a matrix stored with nmax = 3, one column
        /\ FlatAugmented(Flat(A), A[3], 2, 1, 3)
              = <<A[1][1], A[1][2], A[3][1], A[2][1], A[2][2], A[3][2]>>
        /\ FlatIdentity(3) = <<1, 0, 0, 0, 1, 0, 0, 0, 1>>

Inv_Adjugate ==
    General =>
        /\ AdjB(A) = Adj(A)
        /\ MatMul(A, Adj(A)) = Scale(Det(A), Identity(N))
        /\ MatMul(Adj(A), A) = Scale(Det(A), Identity(N))

\* Cramer's rule solves; the solution of a non-singular system is unique;
\* a singular matrix has a non-trivial kernel
SmallVecs == IF N = 2 THEN {<<a, b>> : a \in -4..4, b \in -4..4}
             ELSE {<<a, b, c>> : a \in -2..2, b \in -2..2, c \in -2..2}
Inv_Solve ==
    (Ready /\ kind = "solve2") =>
        IF Det(A) # 0
        THEN /\ Solves(A, Cramer(A, B), B)
             /\ SolvesScaled(A, CramerNum(A, B), Det(A), B)
             /\ \A x \in SmallVecs :
                   SolvesInt(A, x, B) <=>
                       Cramer(A, B) = [i \in 1..2 |-> RInt(x[i])]
        ELSE TRUE
Inv_Kernel ==
    General =>
        (Singular(A) <=>
            \E x \in SmallVecs : x # [i \in 1..N |-> 0]
                                 /\ MatVec(A, x) = [i \in 1..N |-> 0])

\* elimination without row exchange: its pivots are the leading principal
\* minors; a zero pivot of a non-singular matrix is cured by a row exchange
Inv_Pivots ==
    General =>
        LET st == NaiveSteps(A)
        IN /\ Len(st) <= N - 1
           /\ \A k \in 1..Len(st) :
                 /\ st[k].piv = LeadMinor(A, k)
                 /\ st[k].prev = LeadMinor(A, k - 1)
                 /\ k < Len(st) => st[k].piv # 0
           /\ Len(st) < N - 1 => st[Len(st)].piv = 0
           /\ ZeroPivot(A) <=> \E k \in 1..(N - 1) : LeadMinor(A, k) = 0
           /\ N = 2 => (NeedsRowExchange(A) <=>
                           A[1][1] = 0 /\ A[1][2] # 0 /\ A[2][1] # 0)
           /\ NeedsRowExchange(A) =>
                 \E p \in (IF N = 3 THEN Perms3 ELSE {<<1, 2>>, <<2, 1>>}) :
                     ~ZeroPivot(PermRows(A, p))

\* elimination with partial pivoting (the repaired gj_solve): it computes the
\* determinant, never meets a zero pivot on a non-singular matrix whatever
\* the row scaling, and with equal scalings picks a largest entry
ReSet == IF N = 2 THEN {<<0, 0>>, <<-7, 0>>, <<3, -3>>}
         ELSE {<<0, 0, 0>>, <<-7, 0, 5>>, <<2, -9, 0>>}
Inv_Pivoted ==
    General =>
        /\ \A re \in ReSet :
            LET pe == PivotedElim(A, re)
                st == pe.steps
            IN /\ pe.sgn * pe.last = Det(A)
               /\ Det(A) # 0 =>
                     /\ Len(st) = N - 1
                     /\ \A k \in 1..Len(st) : st[k].piv # 0
               /\ (re = [i \in 1..N |-> 0] /\ Len(st) >= 1) =>
                     \A i \in 1..N : Abs(A[i][1]) <= Abs(st[1].piv)
               \* real pivot = piv/prev * 2^(e + ce) against 2^-39
               /\ Det(A) # 0 =>
                     /\ ~TinyAbsPivot(A, [i \in 1..N |-> -30],
                                      [i \in 1..N |-> 0])
                     /\ TinyAbsPivot(A, [i \in 1..N |-> -41],
                                     [i \in 1..N |-> 0])
                     /\ TinyAbsPivot(A, [i \in 1..N |-> 0],
                                     [i \in 1..N |-> -41])
        \* one tiny row is avoided by the pivot search when another row offers
        \* a pivot; it is met when its column has nothing else
        /\ (N = 2 /\ A[1][1] # 0 /\ A[2][1] # 0 /\ Det(A) # 0) =>
              ~TinyAbsPivot(A, <<-45, 0>>, <<0, 0>>)
        /\ (N = 2 /\ A[1][1] # 0 /\ A[2][1] = 0 /\ Det(A) # 0) =>
              TinyAbsPivot(A, <<-45, 0>>, <<0, 0>>)

Poly(p, l) == l * l * l - p.c2 * l * l + p.c1 * l - p.c0
DPoly(p, l) == 3 * l * l - 2 * p.c2 * l + p.c1
Inv_Sym ==
    (Ready /\ kind = "sym3") =>
        LET p == CharPoly(A)
            A2 == MatMul(A, A)
            A3 == MatMul(A2, A)
        IN /\ p = d
           /\ p.c0 = DetB(A)
           \* Cayley-Hamilton
           /\ \A i, j \in 1..3 :
                 A3[i][j] - p.c2 * A2[i][j] + p.c1 * A[i][j]
                    - p.c0 * Identity(3)[i][j] = 0
           \* integer l is an eigenvalue iff it is a root of the polynomial
           /\ \A l \in -7..7 :
                 /\ (DetL([i \in 1..3 |-> [j \in 1..3 |->
                        A[i][j] - (IF i = j THEN l ELSE 0)]]) = 0)
                       <=> Poly(p, l) = 0
                 /\ (Poly(p, l) = 0 /\ DPoly(p, l) = 0) => Disc(A) = 0
           \* real spectrum
           /\ Disc(A) >= 0
           /\ (EigClass(A) = "triple") <=> IsScalarMat(A)
           /\ IsDiagonal(A) =>
                 (EigClass(A) = "distinct" <=>
                     Cardinality({A[1][1], A[2][2], A[3][3]}) = 3)
           /\ ZeroEigs(A) = 0 <=> ~Singular(A)
           /\ ZeroEigs(A) = 3 <=> A = Zero(3, 3)
           /\ ZeroEigs(A) >= 2 <=>
                 \A i, j, k, l \in 1..3 :
                     A[i][k] * A[j][l] - A[i][l] * A[j][k] = 0

-----------------------------------------------------------------------------
\* arithmetic helpers
ASSUME \A a \in 0..40, b \in 0..40, sh \in -7..7 :
          LtPow2(a, sh, b) <=> (IF sh >= 0 THEN a * Pow2(sh) < b
                                ELSE a < b * Pow2(-sh))
ASSUME LtPow2(1, 35, 1000000) = FALSE /\ LtPow2(0, 35, 1) /\ LtPow2(5, -35, 1)
       /\ ~LtPow2(5, -35, 0)
ASSUME \A p \in -6..6, q \in {-3, -2, -1, 1, 2, 3}, r \in -4..4,
          s \in {-2, 1, 3} :
          LET a == Rat(p, q) b == Rat(r, s)
          IN /\ a[2] > 0 /\ Gcd(Abs(a[1]), a[2]) = 1
             /\ REq(RSub(RAdd(a, b), b), a)
             /\ RAdd(a, b) = RAdd(b, a)
             /\ r # 0 => RMul(RDiv(a, b), b) = a
             /\ RLe(a, b) \/ RLe(b, a)
ASSUME RAdd(Rat(1, 2), Rat(1, 3)) = <<5, 6>> /\ Rat(2, -4) = <<-1, 2>>
=============================================================================
