-------------------------- MODULE TraceAccelEval --------------------------
(* Validates hook-invocation logs recorded from the compiled               *)
(* AccelerationEval (checks/c03_driver.py) against AccelEval.tla.          *)
EXTENDS AccelEval, Json, IOUtils, TLCExt

Traces == ndJsonDeserialize(IOEnv.TRACE_FILE)
VARIABLE tid

SetOf(q) == {q[i] : i \in DOMAIN q}
CEq(e) == [eid |-> e.eid, dest |-> e.dest, srcs |-> e.srcs, hooks |-> SetOf(e.hooks)]
CGrp(g) == [gid |-> g.gid, real |-> g.real, start |-> g.start, stop |-> g.stop,
            sprop |-> g.sprop, pprop |-> g.pprop, iterate |-> g.iterate,
            minit |-> g.minit, maxit |-> g.maxit, hascond |-> g.hascond,
            haspre |-> g.haspre, haspost |-> g.haspost, upd |-> g.upd,
            sub |-> [k \in DOMAIN g.sub |->
                       [gid |-> g.sub[k].gid, real |-> g.sub[k].real,
                        start |-> g.sub[k].start, stop |-> g.sub[k].stop,
                        sprop |-> g.sub[k].sprop, pprop |-> g.sub[k].pprop,
                        iterate |-> FALSE, minit |-> 0, maxit |-> 1,
                        hascond |-> g.sub[k].hascond, haspre |-> g.sub[k].haspre,
                        haspost |-> g.sub[k].haspost, upd |-> g.sub[k].upd,
                        sub |-> <<>>,
                        eqs |-> [i \in DOMAIN g.sub[k].eqs |-> CEq(g.sub[k].eqs[i])]]],
            eqs |-> [i \in DOMAIN g.eqs |-> CEq(g.eqs[i])]]
CProg(p) == [k \in DOMAIN p |-> CGrp(p[k])]
\* arrays are numbered from 0 in the program; arr is indexed 1..n in JSON
Arr(x) == [a \in 0..(Len(x.arr) - 1) |-> x.arr[a + 1]]
Abs(v) == IF v < 0 THEN -v ELSE v
\* neighbours on the lattice: positions are in units of one cut-off radius
\* less a margin (h = 0.75, radius_scale = 2): |dx| <= 1
NbrsOf(x) ==
    LET A == Arr(x)
    IN [t \in UNION {{<<d, s, i>> : i \in 0..(A[d].nall - 1)} : d \in DOMAIN A, s \in DOMAIN A} |->
          {j \in 0..(A[t[2]].nall - 1) :
              Abs(A[t[1]].pos[t[3] + 1] - A[t[2]].pos[j + 1]) <= 1}]

Verdict(x) ==
    IF "crash" \in DOMAIN x \/ "error" \in DOMAIN x
    THEN [id |-> x.id, ok |-> FALSE, diff |-> -1, real |-> <<>>, want |-> <<>>,
          vcok |-> FALSE, n |-> 0]
    ELSE LET r == Run(CProg(x.prog), Arr(x), NbrsOf(x), x.env)
             cr == Canon(x.log, EqDestOf(CProg(x.prog)))
             cm == Canon(r.log, EqDestOf(CProg(x.prog)))
             df == FirstDiff(cr, cm)
         IN [id |-> x.id, ok |-> df = 0, diff |-> df,
             real |-> IF df > 0 /\ df <= Len(cr) THEN <<cr[df]>> ELSE <<>>,
             want |-> IF df > 0 /\ df <= Len(cm) THEN <<cm[df]>> ELSE <<>>,
             vcok |-> \A k \in DOMAIN x.vc :
                         x.vc[k] = (IF \E i \in DOMAIN r.vc : Key(i) = k
                                    THEN r.vc[CHOOSE i \in DOMAIN r.vc : Key(i) = k]
                                    ELSE 0),
             n |-> Len(x.log)]

TInit == tid \in 1..Len(Traces) /\ TLCSet(tid, Verdict(Traces[tid]))
TNext == FALSE /\ UNCHANGED tid
Report == \A i \in 1..Len(Traces) : PrintT(<<"VERDICT", ToJson(TLCGet(i))>>)
=============================================================================
