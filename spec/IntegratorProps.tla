-------------------------- MODULE IntegratorProps --------------------------
(***************************************************************************)
(* Property layer of C04: "the compiled integrator performs one_timestep   *)
(* exactly as written".  Predicates over a *case* C (what was asked) and   *)
(* the *observable event log* l of integrator.step() calls, nothing else.  *)
(*                                                                         *)
(* A case C is a record                                                    *)
(*   ops   : the op list of one_timestep, in source order; every op is     *)
(*           [op, m, i, nnps, num, den, n]                                 *)
(*             op = "stage" : self.initialize() (m = 0) / self.stageM()    *)
(*             op = "accel" : self.compute_accelerations(i, nnps)          *)
(*             op = "domain": self.update_domain()                         *)
(*             op = "post"  : self.do_post_stage(num/den * dt, n)          *)
(*   arrs  : the particle arrays in sorted-name order, each                *)
(*           [name, nreal, k0, meth]; meth[m+1] = [loop, py, mv, pyw, pop] *)
(*           says                                                          *)
(*           whether the array's stepper has the compiled method (loop),   *)
(*           the Python hook py_stageM (py), how far the method moves a    *)
(*           particle (mv), whether the hook writes a stepper attribute    *)
(*   steps : the consecutive calls step(t, dt), each [t, dt]               *)
(*   vis   : whether the steppers are logging probes (visit events exist)  *)
(*   e     : slack in time units where times are quantised (0: exact)      *)
(*                                                                         *)
(* An event is [ev, a, m, i, t, dt, n]:                                    *)
(*   "visit": the compiled method m of array a's stepper ran on index i    *)
(*            and was passed (t, dt)                                       *)
(*   "py"   : py_stageM(a, t, dt) was called                               *)
(*   "nnps" : the neighbour structure was refreshed (nnps.update())        *)
(*   "accel": equation set i was evaluated with (t, dt)                    *)
(*   "domain": nnps.update_domain() was called                             *)
(*   "post" : the post-stage callback was called with (t, dt, n)           *)
(* Compiled loops are observed through per-array logging probes; a visit   *)
(* is placed in l before the first Python-level event that saw it.  Hence  *)
(* the order of events of *different arrays* between two Python-level      *)
(* events is not observable - and the statement does not promise one.      *)
(* Times are integers (ticks or quantised units).                          *)
(***************************************************************************)
EXTENDS Integers, Sequences, FiniteSets

Abs(x) == IF x < 0 THEN -x ELSE x
Near(a, b, e) == Abs(a - b) <= e
SetMax(S) == CHOOSE x \in S : \A y \in S : y <= x

GKinds == {"accel", "domain", "post"}        \* one event per non-stage op
AKinds == {"py", "visit"}

NOps(C)   == Len(C.ops)
NSteps(C) == Len(C.steps)
NOcc(C)   == NOps(C) * NSteps(C)
\* occurrence r of an op = (step j, op index k), in execution order
StepOf(C, r) == (r - 1) \div NOps(C) + 1
OpIx(C, r)   == ((r - 1) % NOps(C)) + 1
OpOf(C, r)   == C.ops[OpIx(C, r)]

\* do_post_stage(num/den * dt, n): the stage time offset
SDt(o, dt) == (o.num * dt) \div o.den

(***************************************************************************)
(* "t the current stage time": t of the step, plus the stage_dt of the     *)
(* last do_post_stage written before op k in one_timestep.                 *)
(***************************************************************************)
StageTime(C, r) ==
    LET j == StepOf(C, r)
        k == OpIx(C, r)
        posts == {q \in 1..(k - 1) : C.ops[q].op = "post"}
    IN IF posts = {} THEN C.steps[j].t
       ELSE C.steps[j].t + SDt(C.ops[SetMax(posts)], C.steps[j].dt)
StepDt(C, r) == C.steps[StepOf(C, r)].dt

\* occurrences of non-stage ops, in order; of one kind
GOccs(C)    == SelectSeq([r \in 1..NOcc(C) |-> r],
                         LAMBDA r : OpOf(C, r).op # "stage")
KOccs(C, k) == SelectSeq([r \in 1..NOcc(C) |-> r],
                         LAMBDA r : OpOf(C, r).op = k)
\* number of non-stage occurrences before occurrence r
GBefore(C, r) == Cardinality({q \in 1..(r - 1) : OpOf(C, q).op # "stage"})

Globals(l)  == SelectSeq(l, LAMBDA x : x.ev \in GKinds)
OfKind(l, k) == SelectSeq(l, LAMBDA x : x.ev = k)

(***************************************************************************)
(* Source order of the non-stage calls.                                    *)
(***************************************************************************)
P_Order(C, l) ==
    LET g == Globals(l)  o == GOccs(C)
    IN /\ Len(g) = Len(o)
       /\ \A x \in 1..Len(g) : g[x].ev = OpOf(C, o[x]).op

(***************************************************************************)
(* compute_accelerations(i): equation set i, once, with the current stage  *)
(* time and the step size.                                                 *)
(***************************************************************************)
P_Accel(C, l) ==
    LET g == OfKind(l, "accel")  o == KOccs(C, "accel")
    IN /\ Len(g) = Len(o)
       /\ \A x \in 1..Len(g) :
            /\ g[x].i = OpOf(C, o[x]).i
            /\ Near(g[x].t, StageTime(C, o[x]), C.e)
            /\ Near(g[x].dt, StepDt(C, o[x]), C.e)

(***************************************************************************)
(* ... after refreshing neighbours unless update_nnps=False.  With         *)
(* update_nnps=True the event just before the evaluation is the refresh    *)
(* (nothing may move a particle in between); with update_nnps=False it is  *)
(* not a refresh; there are as many refreshes as refreshing calls.         *)
(***************************************************************************)
P_Refresh(C, l) ==
    LET pos == SelectSeq([p \in 1..Len(l) |-> p],
                         LAMBDA p : l[p].ev = "accel")
        o == KOccs(C, "accel")
    IN Len(pos) = Len(o) =>
         /\ \A x \in 1..Len(pos) :
               IF OpOf(C, o[x]).nnps
               THEN pos[x] > 1 /\ l[pos[x] - 1].ev = "nnps"
               ELSE pos[x] = 1 \/ l[pos[x] - 1].ev # "nnps"
         /\ Len(OfKind(l, "nnps"))
               = Cardinality({x \in 1..Len(o) : OpOf(C, o[x]).nnps})

(***************************************************************************)
(* update_domain: once per call written.                                   *)
(***************************************************************************)
P_Domain(C, l) == Len(OfKind(l, "domain")) = Len(KOccs(C, "domain"))

(***************************************************************************)
(* The post-stage callback fires once per do_post_stage with               *)
(* (t + stage_dt, dt, stage).                                              *)
(***************************************************************************)
P_Post(C, l) ==
    LET g == OfKind(l, "post")  o == KOccs(C, "post")
    IN /\ Len(g) = Len(o)
       /\ \A x \in 1..Len(g) :
            LET op == OpOf(C, o[x])  j == StepOf(C, o[x])
            IN /\ g[x].n = op.n
               /\ Near(g[x].t, C.steps[j].t + SDt(op, C.steps[j].dt), C.e)
               /\ Near(g[x].dt, C.steps[j].dt, C.e)

(***************************************************************************)
(* Stage calls, array by array.  The events of array a form consecutive    *)
(* blocks, one per stage call in execution order: the py hook (if the      *)
(* stepper has one) first, then the compiled method on every real index    *)
(* exactly once (in any order) and on nothing else, all with the current   *)
(* stage time and the step size.                                           *)
(***************************************************************************)
Meth(C, ai, r) == C.arrs[ai].meth[OpOf(C, r).m + 1]

(***************************************************************************)
(* A py hook may change the population of its array (pop): "add" one real  *)
(* particle, turn one real particle into a "ghost" (tag + align) or        *)
(* "remove" one.  The stage is applied to the real particles as they are   *)
(* AFTER the hook: NRealAt[r] = number of real particles of array ai when  *)
(* the compiled method of occurrence r runs.                               *)
(***************************************************************************)
PopDelta(d, n) ==
    IF ~ d.py THEN 0
    ELSE CASE d.pop = "add" -> 1
           [] d.pop \in {"ghost", "remove"} -> (IF n > 0 THEN -1 ELSE 0)
           [] OTHER -> 0
NRealAt(C, ai) ==
    LET f[r \in 0..NOcc(C)] ==
            IF r = 0 THEN C.arrs[ai].nreal
            ELSE IF OpOf(C, r).op = "stage"
                 THEN f[r - 1] + PopDelta(Meth(C, ai, r), f[r - 1])
                 ELSE f[r - 1]
    IN f
HasPop(C) == \E ai \in 1..Len(C.arrs) : \E q \in 1..Len(C.arrs[ai].meth) :
                C.arrs[ai].meth[q].py /\ C.arrs[ai].meth[q].pop # "none"

BlockLen(C, ai, r) ==
    IF OpOf(C, r).op # "stage" THEN 0
    ELSE (IF Meth(C, ai, r).py THEN 1 ELSE 0) +
         (IF Meth(C, ai, r).loop THEN NRealAt(C, ai)[r] ELSE 0)
\* offsets: Off[r] = number of events of array ai before occurrence r
Offsets(C, ai) ==
    LET f[r \in 1..(NOcc(C) + 1)] ==
            IF r = 1 THEN 0 ELSE f[r - 1] + BlockLen(C, ai, r - 1)
    IN f
AEvents(C, l, ai) ==
    SelectSeq(l, LAMBDA x : x.ev \in AKinds /\ x.a = C.arrs[ai].name)

\* (the exact index set of every stage call is demanded by P_Stages)
MaxNReal(C, ai) == SetMax({NRealAt(C, ai)[r] : r \in 0..NOcc(C)})
P_NoGhost(C, l) ==
    \A ai \in 1..Len(C.arrs) :
        \A x \in 1..Len(l) :
            (l[x].ev = "visit" /\ l[x].a = C.arrs[ai].name)
                => (l[x].i >= 0 /\ l[x].i < MaxNReal(C, ai))

BlockOK(C, A, ai, r, off) ==
    LET d    == Meth(C, ai, r)
        m    == OpOf(C, r).m
        npy  == IF d.py THEN 1 ELSE 0
        nv   == IF d.loop THEN NRealAt(C, ai)[r] ELSE 0
        okt(x) == /\ x.m = m
                  /\ Near(x.t, StageTime(C, r), C.e)
                  /\ Near(x.dt, StepDt(C, r), C.e)
    IN /\ d.py => (A[off + 1].ev = "py" /\ okt(A[off + 1]))
       /\ \A q \in 1..nv : (A[off + npy + q].ev = "visit"
                             /\ okt(A[off + npy + q]))
       /\ {A[off + npy + q].i : q \in 1..nv} = 0..(nv - 1)

P_Stages(C, l) ==
    \A ai \in 1..Len(C.arrs) :
        LET A == AEvents(C, l, ai)  off == Offsets(C, ai)
        IN /\ Len(A) = off[NOcc(C) + 1]
           /\ \A r \in 1..NOcc(C) :
                OpOf(C, r).op = "stage" => BlockOK(C, A, ai, r, off[r])

(***************************************************************************)
(* Source order between stage calls and the other calls: every event of a  *)
(* stage call lies after the events of all earlier non-stage calls and     *)
(* before those of all later ones.                                         *)
(***************************************************************************)
P_Interleave(C, l) ==
    \A ai \in 1..Len(C.arrs) :
        LET pos == SelectSeq([p \in 1..Len(l) |-> p],
                     LAMBDA p : l[p].ev \in AKinds
                                /\ l[p].a = C.arrs[ai].name)
            off == Offsets(C, ai)
        IN Len(pos) = off[NOcc(C) + 1] =>
             \A r \in 1..NOcc(C) :
                \A q \in (off[r] + 1)..off[r + 1] :
                    Cardinality({p \in 1..(pos[q] - 1) : l[p].ev \in GKinds})
                        = GBefore(C, r)

LogClauses == {"Order", "Accel", "Refresh", "Domain", "Post",
               "NoGhost", "Stages", "Interleave"}
\* clauses that need the logging probes (visit events)
VisClauses == {"NoGhost", "Stages", "Interleave"}

Holds(n, C, l) ==
    CASE n = "Order"      -> P_Order(C, l)
      [] n = "Accel"      -> P_Accel(C, l)
      [] n = "Refresh"    -> P_Refresh(C, l)
      [] n = "Domain"     -> P_Domain(C, l)
      [] n = "Post"       -> P_Post(C, l)
      [] n = "NoGhost"    -> P_NoGhost(C, l)
      [] n = "Stages"     -> P_Stages(C, l)
      [] n = "Interleave" -> P_Interleave(C, l)

\* the clauses a complete log violates
FailedLog(C, l) ==
    {n \in (IF C.vis THEN LogClauses ELSE LogClauses \ VisClauses) :
        ~ Holds(n, C, l)}
=============================================================================
