---------------------------- MODULE TraceLinAlg ----------------------------
(***************************************************************************)
(* Validates cases recorded from the real helpers (checks/c13_driver.py).  *)
(* A batch file holds one recorded case per line, all of one kind:         *)
(*   "gj"  gj_solve                       (Python or transpiled form)      *)
(*   "hl"  mat_mult, mat_vec_mult, identity, augmented_matrix, dot         *)
(*   "eig" the 3x3 symmetric eigen helpers of linalg3                      *)
(*   "xf"  the exact 3x3 transforms / determinant of linalg3               *)
(* For every case the property layer of LinAlg.tla yields the set of       *)
(* violated clauses (`failed`), the set of known-finding signatures the    *)
(* input matches (`known`) and a class used for coverage accounting.       *)
(***************************************************************************)
EXTENDS LinAlg, Json, IOUtils, TLCExt, TLC

Traces == ndJsonDeserialize(IOEnv.TRACE_FILE)
VARIABLE tid

Verdict(x) ==
    CASE x.kind = "gj" ->
            LET v == GjVerdict(x)
            IN [id |-> x.id, failed |-> v.failed, known |-> v.known,
                cls |-> v.cls]
      [] x.kind = "hl" ->
            [id |-> x.id, failed |-> HelperFailed(x), known |-> {},
             cls |-> x.op]
      [] x.kind = "eig" ->
            [id |-> x.id, failed |-> EigFailed(x), known |-> EigKnown(x),
             cls |-> EigCoverClass(x)]
      [] x.kind = "xf" ->
            [id |-> x.id, failed |-> XformFailed(x), known |-> {},
             cls |-> x.op]

TInit == tid \in 1..Len(Traces) /\ TLCSet(tid, Verdict(Traces[tid]))
TNext == FALSE /\ tid' = tid
Report == \A i \in 1..Len(Traces) : PrintT(<<"VERDICT", ToJson(TLCGet(i))>>)

\* for very large batches: only the cases with a violated clause are printed,
\* the others are counted per class
ReportBrief ==
    LET I == 1..Len(Traces)
        Cls == {TLCGet(i).cls : i \in I}
    IN /\ \A i \in I : TLCGet(i).failed = {}
                        \/ PrintT(<<"VERDICT", ToJson(TLCGet(i))>>)
       /\ PrintT(<<"SUMMARY", ToJson(
              [n |-> Len(Traces),
               held |-> [cl \in Cls |-> Cardinality(
                            {i \in I : TLCGet(i).cls = cl
                                       /\ TLCGet(i).failed = {}})],
               failed |-> [cl \in Cls |-> Cardinality(
                            {i \in I : TLCGet(i).cls = cl
                                       /\ TLCGet(i).failed # {}})]])>>)
=============================================================================
