------------------------------ MODULE Output ------------------------------
(***************************************************************************)
(* C11 - saved output loads back to the same particles and solver data.    *)
(*                                                                         *)
(* Property layer.  pysph.solver.utils.dump(filename, particles,           *)
(* solver_data, detailed_output, only_real, mpi_comm=None, compress)       *)
(* followed by pysph.solver.utils.load(filename) is specified as a         *)
(* relation between the abstract state of the arrays that were dumped      *)
(* (ParticleArray.tla: type, stride, dflt, len, data, consts, outs, nreal) *)
(* and the abstract state of the arrays that load() returns.               *)
(*                                                                         *)
(* A *case* is the record                                                  *)
(*   [fmt, compress, detailed, only_real,      the options                 *)
(*    names, arrs, sd,                         what was dumped             *)
(*    lnames, larrs, lsd,                      what load() returned        *)
(*    error]                                   "" or the exception raised  *)
(* names/lnames: sequences of array names (the order of the list given to  *)
(* dump / of the dictionary returned by load); arrs/larrs: array name ->   *)
(* abstract array; sd/lsd: solver data [t, dt, count] as scaled integers.  *)
(*                                                                         *)
(* What is stored is defined by the documented behaviour of                *)
(* ParticleArray.get_property_arrays(all=detailed, only_real):             *)
(*   columns = all properties if detailed or the output list is empty,     *)
(*             otherwise the output list;                                  *)
(*   rows    = the first nreal particles if only_real, otherwise all.      *)
(* The meta-data of *every* property (type, stride, default) is kept,      *)
(* with the constants and the output list (get_particles_info).            *)
(*                                                                         *)
(* The relation is split into named clauses; Failed(c) is the set of       *)
(* clause names that a case violates.  The clauses say exactly what the    *)
(* property statement says and nothing more:                               *)
(*  - load() returns a dictionary keyed by array name: the *order* of the  *)
(*    arrays is not promised (hdf5 groups come back alphabetically); it is *)
(*    reported as an observation (SameOrder), never as a failure;          *)
(*  - the order of the properties inside an array is not promised;         *)
(*  - nothing is demanded of the *values* of properties that were not      *)
(*    stored (they have to exist with the right type/stride/default and    *)
(*    the right length - clause NumParticles);                             *)
(*  - the output list is compared as a set.                                *)
(*                                                                         *)
(* Values.  TLC integers are 32-bit and there are no floats, so in         *)
(* recorded cases every value other than a tag (property data, defaults,   *)
(* constants) is the *exact text* of the number: decimal digits for an     *)
(* integral value of any C type, the hexadecimal float text otherwise.     *)
(* The relation only ever compares values for equality, so it is decided   *)
(* here on these texts (2^53+1, UINT_MAX, 0.1f are themselves).  Solver    *)
(* data are records key text -> value text where the text keeps what       *)
(* "unchanged" means: numbers by value, str / bytes / bool / None and the  *)
(* keys of nested dictionaries by kind and value, sequences by elements.   *)
(***************************************************************************)
EXTENDS ParticleArray

Formats == {"npz", "hdf5"}      \* version 2 files written by dump
V1 == "npz1"                    \* version 1 npz file (only read)

(***************************************************************************)
(* Pre-condition on what may be dumped: a well-formed, aligned array whose *)
(* output list names properties (get_property_arrays looks the names up in *)
(* `properties`; a constant in the list is outside the documented use).    *)
(***************************************************************************)
Dumpable(a) == /\ Rect(a)
               /\ a.outs \subseteq Names(a)
               /\ LocalFirst(Rows(a), a.nreal)

StoredCols(a, detailed) ==
    IF detailed \/ a.outs = {} THEN Names(a) ELSE a.outs
StoredRows(a, only_real) == IF only_real THEN a.nreal ELSE N(a)
\* what a dump stores for one array: property name -> flat values
Stored(a, detailed, only_real) ==
    [p \in StoredCols(a, detailed) |->
       SubSeq(a.data[p], 1, StoredRows(a, only_real) * a.stride[p])]

\* version-1 files have no meta-data and no strides
DumpableV1(a, detailed) ==
    Dumpable(a) /\ \A p \in StoredCols(a, detailed) : a.stride[p] = 1

Precondition(c) ==
    /\ \A i, j \in DOMAIN c.names : c.names[i] = c.names[j] => i = j
    /\ DOMAIN c.arrs = Range(c.names)
    /\ \A a \in DOMAIN c.arrs :
         IF c.fmt = V1 THEN DumpableV1(c.arrs[a], c.detailed)
         ELSE Dumpable(c.arrs[a])

-----------------------------------------------------------------------------
\* arrays present on both sides, and their common properties
Both(c) == Range(c.names) \cap DOMAIN c.larrs
CP(c, a) == Names(c.arrs[a]) \cap Names(c.larrs[a])
Pairs(c) == UNION {{<<a, p>> : p \in CP(c, a)} : a \in Both(c)}
ConstTypes(x) == IF "ctype" \in DOMAIN x THEN x.ctype ELSE <<>>
Sized(l) == "tag" \in Names(l) /\ Rect(l)

\* mismatch sets (used by the clauses and by the known-finding signatures)
BadType(c)   == {ap \in Pairs(c) :
                   c.larrs[ap[1]].type[ap[2]] # c.arrs[ap[1]].type[ap[2]]}
BadStride(c) == {ap \in Pairs(c) :
                   c.larrs[ap[1]].stride[ap[2]] # c.arrs[ap[1]].stride[ap[2]]}
BadDflt(c)   == {ap \in Pairs(c) :
                   c.larrs[ap[1]].dflt[ap[2]] # c.arrs[ap[1]].dflt[ap[2]]}
BadOuts(c)   == {a \in Both(c) : c.larrs[a].outs # c.arrs[a].outs}
BadReal(c)   == {a \in Both(c) :
                   Sized(c.larrs[a]) /\
                   ~LocalFirst(Rows(c.larrs[a]), c.larrs[a].nreal)}

\* ---- the clauses ----------------------------------------------------------
\* same array names (load returns a dictionary keyed by the array name)
ClNames(c) == /\ Len(c.lnames) = Len(c.names)
              /\ Range(c.lnames) = Range(c.names)
              /\ DOMAIN c.larrs = Range(c.names)
\* the same properties exist - all of them, also those that were not stored
ClProps(c) == \A a \in Both(c) : Names(c.larrs[a]) = Names(c.arrs[a])
ClTypes(c) == BadType(c) = {}
ClStrides(c) == BadStride(c) = {}
ClDefaults(c) == BadDflt(c) = {}
ClConstants(c) == \A a \in Both(c) :
                    /\ c.larrs[a].consts = c.arrs[a].consts
                    /\ ConstTypes(c.larrs[a]) = ConstTypes(c.arrs[a])
ClOutputList(c) == BadOuts(c) = {}
\* the loaded array holds exactly the stored particles, every property
\* (stored or not) has number_of_particles x stride values
ClNumParticles(c) ==
    \A a \in Both(c) :
      /\ Sized(c.larrs[a])
      /\ N(c.larrs[a]) = StoredRows(c.arrs[a], c.only_real)
\* for each stored property the same values for the same particles
ClStoredValues(c) ==
    \A a \in Both(c) :
      LET st == Stored(c.arrs[a], c.detailed, c.only_real)
      IN \A p \in DOMAIN st :
           p \in Names(c.larrs[a]) => c.larrs[a].data[p] = st[p]
\* "the same particles": the loaded array knows which of its particles are
\* real - its real particles come first and num_real_particles counts them
ClRealParticles(c) == BadReal(c) = {}
ClSolverData(c) == c.lsd = c.sd
\* "the same default" is the default in force: a particle appended to the
\* loaded array (extend(1)) gets, for every property - the built-in tag,
\* pid, gid included - the default of the array that was dumped
HasExt(c) == "lext" \in DOMAIN c
BadAppended(c) ==
    IF HasExt(c)
    THEN {ap \in Pairs(c) :
            /\ ap[1] \in DOMAIN c.lext /\ ap[2] \in DOMAIN c.lext[ap[1]]
            /\ c.lext[ap[1]][ap[2]] #
                 Rep(c.arrs[ap[1]].dflt[ap[2]], c.arrs[ap[1]].stride[ap[2]])}
    ELSE {}
ClAppendedDefaults(c) ==
    /\ BadAppended(c) = {}
    /\ HasExt(c) => \A a \in Both(c) : a \in DOMAIN c.lext

\* version 1: the file holds the stored columns and the solver data only
\* (get_particle_array adds its default properties, types are its own)
ClPropsV1(c) ==
    \A a \in Both(c) :
      StoredCols(c.arrs[a], c.detailed) \subseteq Names(c.larrs[a])

Clauses(c) ==
    IF c.fmt = V1
    THEN [Names |-> ClNames(c), Properties |-> ClPropsV1(c),
          NumParticles |-> ClNumParticles(c),
          StoredValues |-> ClStoredValues(c),
          RealParticles |-> ClRealParticles(c),
          SolverData |-> ClSolverData(c)]
    ELSE [Names |-> ClNames(c), Properties |-> ClProps(c),
          Types |-> ClTypes(c), Strides |-> ClStrides(c),
          Defaults |-> ClDefaults(c), Constants |-> ClConstants(c),
          OutputList |-> ClOutputList(c),
          AppendedDefaults |-> ClAppendedDefaults(c),
          NumParticles |-> ClNumParticles(c),
          StoredValues |-> ClStoredValues(c),
          RealParticles |-> ClRealParticles(c),
          SolverData |-> ClSolverData(c)]

\* dump and load return (they do not raise) on every dumpable input
Failed(c) ==
    IF c.error # "" THEN {"Returns"}
    ELSE LET cl == Clauses(c) IN {k \in DOMAIN cl : ~cl[k]}

MkCase(arrays, solverdata, fmt, compress, detailed, only_real,
       loaded, loaded_solverdata) ==
    [fmt |-> fmt, compress |-> compress, detailed |-> detailed,
     only_real |-> only_real, names |-> arrays.names, arrs |-> arrays.arrs,
     sd |-> solverdata, lnames |-> loaded.names, larrs |-> loaded.arrs,
     lsd |-> loaded_solverdata, error |-> ""]

\* arrays, loaded: [names |-> sequence of names, arrs |-> name -> array]
RoundTrip(arrays, solverdata, fmt, compress, detailed, only_real,
          loaded, loaded_solverdata) ==
    Failed(MkCase(arrays, solverdata, fmt, compress, detailed, only_real,
                  loaded, loaded_solverdata)) = {}

\* observation only: the dictionary returned by load lists the arrays in
\* the order in which they were given to dump
SameOrder(c) == c.lnames = c.names

-----------------------------------------------------------------------------
(***************************************************************************)
(* Known findings, by signature (known_findings.json).  A signature is a   *)
(* predicate on the case that pins the failure down completely: format,    *)
(* failing clause, and *every* mismatch of that clause has the recorded    *)
(* shape.  A failing clause that no matching signature explains is a       *)
(* VIOLATION.  Whether an id is still accepted is decided by the status of *)
(* its entry in known_findings.json (the check dispatches on `known`).     *)
(***************************************************************************)
\* hdf5, property not stored in the file: HDFOutput._get_particles drops
\* `default` for such properties, so the property loads with the default
\* add_property assumes when none is given - 0, or for a property the
\* constructor already created (tag, pid, gid) the constructor's default
\* (values other than tags are recorded as exact texts, see below)
AssumedDflt(p) == CASE p = "tag" -> Local
                    [] p = "gid" -> "4294967295"
                    [] OTHER -> "0"
Known_hdf5_default(c) ==
    /\ c.fmt = "hdf5" /\ c.error = "" /\ BadDflt(c) # {}
    /\ \A ap \in BadDflt(c) :
         /\ ap[2] \notin StoredCols(c.arrs[ap[1]], c.detailed)
         /\ c.arrs[ap[1]].dflt[ap[2]] # AssumedDflt(ap[2])
         /\ c.larrs[ap[1]].dflt[ap[2]] = AssumedDflt(ap[2])

\* hdf5 does not record the output list: the loaded list is the set of
\* stored columns (differs when detailed, or when the list was empty)
Known_hdf5_outputs(c) ==
    /\ c.fmt = "hdf5" /\ c.error = "" /\ BadOuts(c) # {}
    /\ \A a \in BadOuts(c) :
         c.larrs[a].outs = StoredCols(c.arrs[a], c.detailed)

\* hdf5 reader never aligns: with only_real = FALSE and the tags stored,
\* ghost/remote particles come back counted as real (nreal = all)
Known_hdf5_nreal(c) ==
    /\ c.fmt = "hdf5" /\ c.error = "" /\ ~c.only_real /\ BadReal(c) # {}
    /\ \A a \in BadReal(c) :
         /\ "tag" \in StoredCols(c.arrs[a], c.detailed)
         /\ c.arrs[a].nreal < N(c.arrs[a])
         /\ c.larrs[a].nreal = N(c.larrs[a])
         /\ c.larrs[a].data["tag"] = c.arrs[a].data["tag"]

Known(c) ==
    (IF Known_hdf5_default(c) THEN {"C11-hdf5-default"} ELSE {}) \cup
    (IF Known_hdf5_outputs(c) THEN {"C11-hdf5-outputs"} ELSE {}) \cup
    (IF Known_hdf5_nreal(c) THEN {"C11-hdf5-nreal"} ELSE {})
Explains == [x \in {"C11-hdf5-default", "C11-hdf5-outputs", "C11-hdf5-nreal"} |->
               CASE x = "C11-hdf5-default" -> "Defaults"
                 [] x = "C11-hdf5-outputs" -> "OutputList"
                 [] x = "C11-hdf5-nreal"   -> "RealParticles"]
Unexplained(c) == Failed(c) \ {Explains[x] : x \in Known(c)}

\* how much of the round trip a case exercises (for the evidence)
NumStoredValues(c) ==
    LET F[S \in SUBSET DOMAIN c.arrs] ==
          IF S = {} THEN 0
          ELSE LET a == CHOOSE x \in S : TRUE
                   st == Stored(c.arrs[a], c.detailed, c.only_real)
                   G[T \in SUBSET DOMAIN st] ==
                     IF T = {} THEN 0
                     ELSE LET p == CHOOSE y \in T : TRUE
                          IN Len(st[p]) + G[T \ {p}]
               IN G[DOMAIN st] + F[S \ {a}]
    IN F[DOMAIN c.arrs]
NumNotStored(c) ==
    Cardinality(UNION {{<<a, p>> : p \in Names(c.arrs[a]) \
                                        StoredCols(c.arrs[a], c.detailed)} :
                       a \in DOMAIN c.arrs})
-----------------------------------------------------------------------------
(***************************************************************************)
(* File names.  How dump/load are used by the Solver:                      *)
(*   Solver.dump_output: dump(join(dir, "%s_%05d" % (base, count)), ...)   *)
(*   load(file), get_files(dir, base), get_files(dir),                     *)
(*   load_and_concatenate(prefix, nprocs, dir, count).                     *)
(* A name is a sequence of one-character strings.  The format of a file is *)
(* decided by the name given to dump: it ends in ".npz" or ".hdf5", or it  *)
(* has no format extension and the default format is used (hdf5 when h5py  *)
(* is importable, else npz) by *appending* the extension - whatever dots,  *)
(* underscores or digits the name contains.                                *)
(***************************************************************************)
DotNpz == <<".", "n", "p", "z">>
DotHdf == <<".", "h", "d", "f", "5">>
HasSuffix(s, x) == /\ Len(s) >= Len(x)
                   /\ SubSeq(s, Len(s) - Len(x) + 1, Len(s)) = x
DropLast(s, k) == SubSeq(s, 1, Len(s) - k)
DefaultFmt(h5) == IF h5 THEN "hdf5" ELSE "npz"
ExtOf(fmt) == IF fmt = "npz" THEN DotNpz ELSE DotHdf

\* the file dump(name, ...) writes, and its format
FileOf(name, h5) ==
    IF HasSuffix(name, DotNpz) THEN [path |-> name, fmt |-> "npz"]
    ELSE IF HasSuffix(name, DotHdf)
         THEN [path |-> DropLast(name, 5) \o ExtOf(DefaultFmt(h5)),
               fmt |-> DefaultFmt(h5)]
         ELSE [path |-> name \o ExtOf(DefaultFmt(h5)), fmt |-> DefaultFmt(h5)]

Digit == <<"0", "1", "2", "3", "4", "5", "6", "7", "8", "9">>
Dec(n) ==        \* decimal digits of n >= 0
    LET F[k \in 0..n] == IF k < 10 THEN <<Digit[k + 1]>>
                         ELSE Append(F[k \div 10], Digit[(k % 10) + 1])
    IN F[n]
Pad5(n) == LET d == Dec(n)
           IN IF Len(d) >= 5 THEN d ELSE Rep("0", 5 - Len(d)) \o d
Join(dir, file) == IF dir = <<>> THEN file ELSE dir \o <<"/">> \o file

\* the mapping (directory, base name, iteration count, ext) -> name, file
SolverName(dir, base, count, ext) ==
    Join(dir, base \o <<"_">> \o Pad5(count)) \o ext
SolverFile(dir, base, count, ext, h5) ==
    FileOf(SolverName(dir, base, count, ext), h5)

\* reading the count back from a file name (what discovery sorts by): the
\* digits between the last "_" and the format extension
LastIndex(s, ch) == LET I == {i \in DOMAIN s : s[i] = ch}
                    IN IF I = {} THEN 0 ELSE CHOOSE i \in I : \A j \in I : j <= i
DigitVal(ch) == CHOOSE k \in 0..9 : Digit[k + 1] = ch
IsDigits(s) == s # <<>> /\ \A i \in DOMAIN s : \E k \in 1..10 : Digit[k] = s[i]
Val(s) == LET F[i \in 0..Len(s)] ==
                IF i = 0 THEN 0 ELSE 10 * F[i - 1] + DigitVal(s[i])
          IN F[Len(s)]
StripExt(f) == IF HasSuffix(f, DotNpz) THEN DropLast(f, 4)
               ELSE IF HasSuffix(f, DotHdf) THEN DropLast(f, 5) ELSE f
CountField(f) == LET b == StripExt(f) IN SubSeq(b, LastIndex(b, "_") + 1, Len(b))

(***************************************************************************)
(* A *run* is a sequence of dumps into one directory, recorded from the    *)
(* real code:                                                              *)
(*   h5        : h5py importable                                           *)
(*   solver    : TRUE when the names follow the Solver's pattern; then     *)
(*               dir, base, ext, counts give names[i] = SolverName(..)     *)
(*   names     : the name given to the i-th dump                           *)
(*   listings  : the set of files below the run's root after the i-th dump *)
(*   loaded    : for every file present at the end: [path, ok, count,      *)
(*               magic] - load(path) returned, solver_data['count'], and   *)
(*               the file type by its first bytes ("npz" | "hdf5" | other) *)
(*   found     : get_files(dir, base) (paths relative to the root)         *)
(*   auto      : dir is "<base>_output"; found_auto = get_files(dir)       *)
(*   concat    : results of load_and_concatenate(prefix, 1, dir, count):   *)
(*               [count (-1 = None), ok, got]                              *)
(***************************************************************************)
RunTargets(r) == [i \in DOMAIN r.names |-> FileOf(r.names[i], r.h5)]
RunPre(r) ==
    /\ Len(r.listings) = Len(r.names) /\ Len(r.counts) = Len(r.names)
    /\ \A i, j \in DOMAIN r.counts : r.counts[i] = r.counts[j] => i = j
    /\ r.solver => \A i \in DOMAIN r.names :
                     r.names[i] = SolverName(r.dir, r.base, r.counts[i], r.ext)
\* the mapping is injective: distinct dumps of a run go to distinct files
RnDistinct(r) == LET t == RunTargets(r)
                 IN \A i, j \in DOMAIN t : t[i].path = t[j].path => i = j
\* each dump writes its file ...
RnFileWritten(r) == \A i \in DOMAIN r.names :
                      RunTargets(r)[i].path \in r.listings[i]
\* ... and nothing else: after i dumps exactly i files exist
RnNoStrayFiles(r) ==
    \A i \in DOMAIN r.names :
      r.listings[i] = {RunTargets(r)[j].path : j \in 1..i}
\* in the format its name says
RnFormat(r) == \A i \in DOMAIN r.names :
                 \A k \in DOMAIN r.loaded :
                   r.loaded[k].path = RunTargets(r)[i].path =>
                     r.loaded[k].magic = RunTargets(r)[i].fmt
\* every dump of the run loads back from its own file with its own data
RnLoadsBack(r) ==
    \A i \in DOMAIN r.names :
      \E k \in DOMAIN r.loaded :
        /\ r.loaded[k].path = RunTargets(r)[i].path
        /\ r.loaded[k].ok /\ r.loaded[k].count = r.counts[i]
\* discovery returns exactly the files written, in iteration order
InCountOrder(r) ==
    LET t == RunTargets(r)
        Rank(i) == Cardinality({j \in DOMAIN r.counts : r.counts[j] <= r.counts[i]})
    IN [k \in DOMAIN t |-> t[CHOOSE i \in DOMAIN t : Rank(i) = k].path]
RnDiscovery(r) == r.solver => r.found = InCountOrder(r)
RnDiscoveryAuto(r) == r.solver /\ r.auto => r.found_auto = InCountOrder(r)
\* and the count can be read back from the name
RnCountReadable(r) ==
    r.solver => \A i \in DOMAIN r.names :
                  LET f == CountField(RunTargets(r)[i].path)
                  IN IsDigits(f) /\ Val(f) = r.counts[i]
\* load_and_concatenate(prefix, 1, dir, count) returns the dump with that
\* count (count = -1: None, the last one)
MaxCount(r) == CHOOSE c \in Range(r.counts) : \A d \in Range(r.counts) : d <= c
ConcatBad(r) == {k \in DOMAIN r.concat :
                   LET want == IF r.concat[k].count = -1 THEN MaxCount(r)
                               ELSE r.concat[k].count
                   IN ~(r.concat[k].ok /\ r.concat[k].got = want)}
RnConcatenate(r) == ConcatBad(r) = {}

RunClauses(r) ==
    [Distinct |-> RnDistinct(r), FileWritten |-> RnFileWritten(r),
     NoStrayFiles |-> RnNoStrayFiles(r), Format |-> RnFormat(r),
     LoadsBack |-> RnLoadsBack(r), Discovery |-> RnDiscovery(r),
     DiscoveryAuto |-> RnDiscoveryAuto(r),
     CountReadable |-> RnCountReadable(r), Concatenate |-> RnConcatenate(r)]
RunFailed(r) ==
    IF r.error # "" THEN {"Returns"}
    ELSE LET cl == RunClauses(r) IN {k \in DOMAIN cl : ~cl[k]}

\* ---- known findings of the file-name handling -----------------------------
\* dump tests the format extension with endswith(('hdf5', 'npz')) - without
\* the dot: a name without format extension whose last characters are "npz"
\* or "hdf5" is cut at the last dot of its last component (the file is
\* written elsewhere); without such a dot a name ending in "npz" gets the
\* npz format although hdf5 is the default
\* (the last component has a dot that os.path.splitext would split at)
HasInnerDot(p) == LET s == LastIndex(p, "/")
                      d == LastIndex(p, ".")
                  IN d > s /\ \E i \in (s + 1)..(d - 1) : p[i] # "."
SuffixNoDot(name, h5) ==
    /\ ~HasSuffix(name, DotNpz) /\ ~HasSuffix(name, DotHdf)
    /\ \/ HasSuffix(name, <<"n", "p", "z">>) /\ (h5 \/ HasInnerDot(name))
       \/ HasSuffix(name, <<"h", "d", "f", "5">>) /\ HasInnerDot(name)
Known_name_suffix(r) ==
    /\ r.error = "" /\ ~r.solver
    /\ RunFailed(r) # {}
    /\ RunFailed(r) \subseteq {"FileWritten", "NoStrayFiles", "Format", "LoadsBack"}
    /\ \A i \in DOMAIN r.names :
         (RunTargets(r)[i].path \notin r.listings[i] \/
          \E k \in DOMAIN r.loaded :
            r.loaded[k].path = RunTargets(r)[i].path /\
            r.loaded[k].magic # RunTargets(r)[i].fmt)
         <=> SuffixNoDot(r.names[i], r.h5)
\* load_and_concatenate builds the file name with str(count) while the
\* Solver writes "%05d": a count below 10000 is never found
Known_concat_unpadded(r) ==
    /\ r.error = "" /\ ConcatBad(r) # {}
    /\ \A k \in ConcatBad(r) :
         LET want == IF r.concat[k].count = -1 THEN MaxCount(r)
                     ELSE r.concat[k].count
         IN want < 10000 /\ ~r.concat[k].ok
RunKnown(r) ==
    (IF Known_name_suffix(r) THEN {"C11-name-suffix-no-dot"} ELSE {}) \cup
    (IF Known_concat_unpadded(r) THEN {"C11-concat-unpadded-count"} ELSE {})
RunUnexplained(r) ==
    RunFailed(r) \
      ((IF Known_name_suffix(r) THEN RunFailed(r) \ {"Concatenate"} ELSE {}) \cup
       (IF Known_concat_unpadded(r) THEN {"Concatenate"} ELSE {}))
=============================================================================
