------------------------------ MODULE Output ------------------------------
(***************************************************************************)
(* C11 - saved output loads back to the same particles and solver data.    *)
(*                                                                         *)
(* Property layer.  pysph.solver.utils.dump(filename, particles,           *)
(* solver_data, detailed_output, only_real, mpi_comm=None, compress)       *)
(* followed by pysph.solver.utils.load(filename) is specified as a         *)
(* relation between the abstract state of the arrays that were dumped      *)
(* (ParticleArray.tla: type, stride, dflt, len, data, consts, outs, nreal) *)
(* and the abstract state of the arrays that load() returns.               *)
(*                                                                         *)
(* A *case* is the record                                                  *)
(*   [fmt, compress, detailed, only_real,      the options                 *)
(*    names, arrs, sd,                         what was dumped             *)
(*    lnames, larrs, lsd,                      what load() returned        *)
(*    error]                                   "" or the exception raised  *)
(* names/lnames: sequences of array names (the order of the list given to  *)
(* dump / of the dictionary returned by load); arrs/larrs: array name ->   *)
(* abstract array; sd/lsd: solver data [t, dt, count] as scaled integers.  *)
(*                                                                         *)
(* What is stored is defined by the documented behaviour of                *)
(* ParticleArray.get_property_arrays(all=detailed, only_real):             *)
(*   columns = all properties if detailed or the output list is empty,     *)
(*             otherwise the output list;                                  *)
(*   rows    = the first nreal particles if only_real, otherwise all.      *)
(* The meta-data of *every* property (type, stride, default) is kept,      *)
(* with the constants and the output list (get_particles_info).            *)
(*                                                                         *)
(* The relation is split into named clauses; Failed(c) is the set of       *)
(* clause names that a case violates.  The clauses say exactly what the    *)
(* property statement says and nothing more:                               *)
(*  - load() returns a dictionary keyed by array name: the *order* of the  *)
(*    arrays is not promised (hdf5 groups come back alphabetically); it is *)
(*    reported as an observation (SameOrder), never as a failure;          *)
(*  - the order of the properties inside an array is not promised;         *)
(*  - nothing is demanded of the *values* of properties that were not      *)
(*    stored (they have to exist with the right type/stride/default and    *)
(*    the right length - clause NumParticles);                             *)
(*  - the output list is compared as a set.                                *)
(***************************************************************************)
EXTENDS ParticleArray

Formats == {"npz", "hdf5"}      \* version 2 files written by dump
V1 == "npz1"                    \* version 1 npz file (only read)

(***************************************************************************)
(* Pre-condition on what may be dumped: a well-formed, aligned array whose *)
(* output list names properties (get_property_arrays looks the names up in *)
(* `properties`; a constant in the list is outside the documented use).    *)
(***************************************************************************)
Dumpable(a) == /\ Rect(a)
               /\ a.outs \subseteq Names(a)
               /\ LocalFirst(Rows(a), a.nreal)

StoredCols(a, detailed) ==
    IF detailed \/ a.outs = {} THEN Names(a) ELSE a.outs
StoredRows(a, only_real) == IF only_real THEN a.nreal ELSE N(a)
\* what a dump stores for one array: property name -> flat values
Stored(a, detailed, only_real) ==
    [p \in StoredCols(a, detailed) |->
       SubSeq(a.data[p], 1, StoredRows(a, only_real) * a.stride[p])]

\* version-1 files have no meta-data and no strides
DumpableV1(a, detailed) ==
    Dumpable(a) /\ \A p \in StoredCols(a, detailed) : a.stride[p] = 1

Precondition(c) ==
    /\ \A i, j \in DOMAIN c.names : c.names[i] = c.names[j] => i = j
    /\ DOMAIN c.arrs = Range(c.names)
    /\ \A a \in DOMAIN c.arrs :
         IF c.fmt = V1 THEN DumpableV1(c.arrs[a], c.detailed)
         ELSE Dumpable(c.arrs[a])

-----------------------------------------------------------------------------
\* arrays present on both sides, and their common properties
Both(c) == Range(c.names) \cap DOMAIN c.larrs
CP(c, a) == Names(c.arrs[a]) \cap Names(c.larrs[a])
Pairs(c) == UNION {{<<a, p>> : p \in CP(c, a)} : a \in Both(c)}
ConstTypes(x) == IF "ctype" \in DOMAIN x THEN x.ctype ELSE <<>>
Sized(l) == "tag" \in Names(l) /\ Rect(l)

\* mismatch sets (used by the clauses and by the known-finding signatures)
BadType(c)   == {ap \in Pairs(c) :
                   c.larrs[ap[1]].type[ap[2]] # c.arrs[ap[1]].type[ap[2]]}
BadStride(c) == {ap \in Pairs(c) :
                   c.larrs[ap[1]].stride[ap[2]] # c.arrs[ap[1]].stride[ap[2]]}
BadDflt(c)   == {ap \in Pairs(c) :
                   c.larrs[ap[1]].dflt[ap[2]] # c.arrs[ap[1]].dflt[ap[2]]}
BadOuts(c)   == {a \in Both(c) : c.larrs[a].outs # c.arrs[a].outs}
BadReal(c)   == {a \in Both(c) :
                   Sized(c.larrs[a]) /\
                   ~LocalFirst(Rows(c.larrs[a]), c.larrs[a].nreal)}

\* ---- the clauses ----------------------------------------------------------
\* same array names (load returns a dictionary keyed by the array name)
ClNames(c) == /\ Len(c.lnames) = Len(c.names)
              /\ Range(c.lnames) = Range(c.names)
              /\ DOMAIN c.larrs = Range(c.names)
\* the same properties exist - all of them, also those that were not stored
ClProps(c) == \A a \in Both(c) : Names(c.larrs[a]) = Names(c.arrs[a])
ClTypes(c) == BadType(c) = {}
ClStrides(c) == BadStride(c) = {}
ClDefaults(c) == BadDflt(c) = {}
ClConstants(c) == \A a \in Both(c) :
                    /\ c.larrs[a].consts = c.arrs[a].consts
                    /\ ConstTypes(c.larrs[a]) = ConstTypes(c.arrs[a])
ClOutputList(c) == BadOuts(c) = {}
\* the loaded array holds exactly the stored particles, every property
\* (stored or not) has number_of_particles x stride values
ClNumParticles(c) ==
    \A a \in Both(c) :
      /\ Sized(c.larrs[a])
      /\ N(c.larrs[a]) = StoredRows(c.arrs[a], c.only_real)
\* for each stored property the same values for the same particles
ClStoredValues(c) ==
    \A a \in Both(c) :
      LET st == Stored(c.arrs[a], c.detailed, c.only_real)
      IN \A p \in DOMAIN st :
           p \in Names(c.larrs[a]) => c.larrs[a].data[p] = st[p]
\* "the same particles": the loaded array knows which of its particles are
\* real - its real particles come first and num_real_particles counts them
ClRealParticles(c) == BadReal(c) = {}
ClSolverData(c) == c.lsd = c.sd

\* version 1: the file holds the stored columns and the solver data only
\* (get_particle_array adds its default properties, types are its own)
ClPropsV1(c) ==
    \A a \in Both(c) :
      StoredCols(c.arrs[a], c.detailed) \subseteq Names(c.larrs[a])

Clauses(c) ==
    IF c.fmt = V1
    THEN [Names |-> ClNames(c), Properties |-> ClPropsV1(c),
          NumParticles |-> ClNumParticles(c),
          StoredValues |-> ClStoredValues(c),
          RealParticles |-> ClRealParticles(c),
          SolverData |-> ClSolverData(c)]
    ELSE [Names |-> ClNames(c), Properties |-> ClProps(c),
          Types |-> ClTypes(c), Strides |-> ClStrides(c),
          Defaults |-> ClDefaults(c), Constants |-> ClConstants(c),
          OutputList |-> ClOutputList(c),
          NumParticles |-> ClNumParticles(c),
          StoredValues |-> ClStoredValues(c),
          RealParticles |-> ClRealParticles(c),
          SolverData |-> ClSolverData(c)]

\* dump and load return (they do not raise) on every dumpable input
Failed(c) ==
    IF c.error # "" THEN {"Returns"}
    ELSE LET cl == Clauses(c) IN {k \in DOMAIN cl : ~cl[k]}

MkCase(arrays, solverdata, fmt, compress, detailed, only_real,
       loaded, loaded_solverdata) ==
    [fmt |-> fmt, compress |-> compress, detailed |-> detailed,
     only_real |-> only_real, names |-> arrays.names, arrs |-> arrays.arrs,
     sd |-> solverdata, lnames |-> loaded.names, larrs |-> loaded.arrs,
     lsd |-> loaded_solverdata, error |-> ""]

\* arrays, loaded: [names |-> sequence of names, arrs |-> name -> array]
RoundTrip(arrays, solverdata, fmt, compress, detailed, only_real,
          loaded, loaded_solverdata) ==
    Failed(MkCase(arrays, solverdata, fmt, compress, detailed, only_real,
                  loaded, loaded_solverdata)) = {}

\* observation only: the dictionary returned by load lists the arrays in
\* the order in which they were given to dump
SameOrder(c) == c.lnames = c.names

-----------------------------------------------------------------------------
(***************************************************************************)
(* Known findings, by signature (known_findings.json).  A signature is a   *)
(* predicate on the case that pins the failure down completely: format,    *)
(* failing clause, and *every* mismatch of that clause has the recorded    *)
(* shape.  A failing clause that no matching signature explains is a       *)
(* VIOLATION.  Whether an id is still accepted is decided by the status of *)
(* its entry in known_findings.json (the check dispatches on `known`).     *)
(***************************************************************************)
\* hdf5, property not stored in the file: HDFOutput._get_particles drops
\* `default` for such properties, so the property loads with the default
\* add_property assumes when none is given - 0, or for a property the
\* constructor already created (tag, pid, gid) the constructor's default
AssumedDflt(p) == IF p \in DOMAIN BuiltinDflt THEN BuiltinDflt[p] ELSE 0
Known_hdf5_default(c) ==
    /\ c.fmt = "hdf5" /\ c.error = "" /\ BadDflt(c) # {}
    /\ \A ap \in BadDflt(c) :
         /\ ap[2] \notin StoredCols(c.arrs[ap[1]], c.detailed)
         /\ c.arrs[ap[1]].dflt[ap[2]] # AssumedDflt(ap[2])
         /\ c.larrs[ap[1]].dflt[ap[2]] = AssumedDflt(ap[2])

\* hdf5 does not record the output list: the loaded list is the set of
\* stored columns (differs when detailed, or when the list was empty)
Known_hdf5_outputs(c) ==
    /\ c.fmt = "hdf5" /\ c.error = "" /\ BadOuts(c) # {}
    /\ \A a \in BadOuts(c) :
         c.larrs[a].outs = StoredCols(c.arrs[a], c.detailed)

\* hdf5 reader never aligns: with only_real = FALSE and the tags stored,
\* ghost/remote particles come back counted as real (nreal = all)
Known_hdf5_nreal(c) ==
    /\ c.fmt = "hdf5" /\ c.error = "" /\ ~c.only_real /\ BadReal(c) # {}
    /\ \A a \in BadReal(c) :
         /\ "tag" \in StoredCols(c.arrs[a], c.detailed)
         /\ c.arrs[a].nreal < N(c.arrs[a])
         /\ c.larrs[a].nreal = N(c.larrs[a])
         /\ c.larrs[a].data["tag"] = c.arrs[a].data["tag"]

Known(c) ==
    (IF Known_hdf5_default(c) THEN {"C11-hdf5-default"} ELSE {}) \cup
    (IF Known_hdf5_outputs(c) THEN {"C11-hdf5-outputs"} ELSE {}) \cup
    (IF Known_hdf5_nreal(c) THEN {"C11-hdf5-nreal"} ELSE {})
Explains == [x \in {"C11-hdf5-default", "C11-hdf5-outputs", "C11-hdf5-nreal"} |->
               CASE x = "C11-hdf5-default" -> "Defaults"
                 [] x = "C11-hdf5-outputs" -> "OutputList"
                 [] x = "C11-hdf5-nreal"   -> "RealParticles"]
Unexplained(c) == Failed(c) \ {Explains[x] : x \in Known(c)}

\* how much of the round trip a case exercises (for the evidence)
NumStoredValues(c) ==
    LET F[S \in SUBSET DOMAIN c.arrs] ==
          IF S = {} THEN 0
          ELSE LET a == CHOOSE x \in S : TRUE
                   st == Stored(c.arrs[a], c.detailed, c.only_real)
                   G[T \in SUBSET DOMAIN st] ==
                     IF T = {} THEN 0
                     ELSE LET p == CHOOSE y \in T : TRUE
                          IN Len(st[p]) + G[T \ {p}]
               IN G[DOMAIN st] + F[S \ {a}]
    IN F[DOMAIN c.arrs]
NumNotStored(c) ==
    Cardinality(UNION {{<<a, p>> : p \in Names(c.arrs[a]) \
                                        StoredCols(c.arrs[a], c.detailed)} :
                       a \in DOMAIN c.arrs})
=============================================================================
