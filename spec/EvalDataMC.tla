---------------------------- MODULE EvalDataMC ----------------------------
(* Design check for C02: on a tiny universe (2 arrays x 2 particles on a    *)
(* 1-D lattice, every placement and every assignment of smoothing lengths,  *)
(* one ghost or none, six hand-written probe programs covering every        *)
(* statement form and every precomputed symbol) the interpreter of          *)
(* EvalData.tla is run and the sanity theorems below are checked in every   *)
(* state.  Evaluation happens in the Next step so that TLC's workers share  *)
(* the load.                                                                *)
EXTENDS EvalData

VARIABLES x, res
vars == <<x, res>>

At(k, n, i) == [k |-> k, n |-> n, i |-> i, a |-> <<>>]
At2(k, n, i, a) == [k |-> k, n |-> n, i |-> i, a |-> a]
Tm(c, f) == [c |-> c, f |-> f]
St(tk, tn, tc, op, lets, e) == [tk |-> tk, tn |-> tn, tc |-> tc, op |-> op, lets |-> lets, e |-> e]
Sym(n) == At("sym", n, 0)
SymK(n, k) == At("sym", n, k)
NoHooks == [py_initialize |-> <<>>, initialize |-> <<>>, initialize_pair |-> <<>>,
            loop_all |-> <<>>, loop |-> <<>>, post_loop |-> <<>>, reduce |-> <<>>]
Body(attrs, h) == [k \in DOMAIN NoHooks \cup {"attrs"} |->
                      IF k = "attrs" THEN attrs ELSE IF k \in DOMAIN h THEN h[k] ELSE <<>>]
Attrs(ca, ci, cv) == [ca |-> ca, ci |-> ci, cv |-> cv]
Grp(gid, real, it, n, eqs) ==
    [gid |-> gid, real |-> real, start |-> 0, stop |-> -1, sprop |-> FALSE, pprop |-> FALSE,
     iterate |-> it, minit |-> n, maxit |-> n, hascond |-> FALSE, haspre |-> FALSE,
     haspost |-> FALSE, upd |-> FALSE, sub |-> <<>>, eqs |-> eqs]
Eq(eid, d, ss, hs) == [eid |-> eid, dest |-> d, srcs |-> ss, hooks |-> hs]

\* ---- six programs --------------------------------------------------------
\* P1: initialize / loop / post_loop, attributes, t, dt, non-commutative update
P1 == [prog |-> <<Grp(10, TRUE, FALSE, 1,
                      <<Eq(1, 0, <<0, 1>>, <<"initialize", "loop", "post_loop">>)>>)>>,
       body |-> [b1 \in {"1"} |-> Body(Attrs(2, 3, <<5, 7>>),
          [initialize |-> <<St("dp", "p0", 0, "set", <<>>,
                               <<Tm(1, <<At("at", "ca", 0)>>), Tm(1, <<At("t", "", 0)>>)>>)>>,
           loop |-> <<St("dp", "p0", 0, "add", <<>>,
                         <<Tm(1, <<At("sp", "m", 0), Sym("WIJ")>>), Tm(2, <<SymK("XIJ", 0)>>)>>),
                      St("dp", "p1", 1, "add", <<>>,
                         <<Tm(1, <<Sym("WI")>>), Tm(-1, <<Sym("WJ"), At("atv", "cv", 1)>>)>>)>>,
           post_loop |-> <<St("dp", "p0", 0, "nc", <<>>,
                              <<Tm(1, <<At("dt", "", 0), At("at", "ci", 0)>>)>>)>>])]]
\* P2: two destinations, gradients, helpers, matrix, rational symbols
P2 == [prog |-> <<Grp(10, FALSE, FALSE, 1,
                      <<Eq(1, 0, <<1>>, <<"loop">>), Eq(2, 1, <<0, 1>>, <<"initialize", "loop">>)>>)>>,
       body |-> [b \in {"1", "2"} |->
          IF b = "1" THEN Body(Attrs(1, 1, <<1, 1>>),
            [loop |-> <<St("dp", "p0", 0, "add",
                           <<<<Tm(1, <<SymK("DWIJ", 0)>>)>>, <<Tm(1, <<Sym("HIJ")>>)>>,
                             <<Tm(1, <<At("sp", "m", 0)>>)>>>>,
                           <<Tm(1, <<At("mat", "", 0), At("mat", "", 1)>>),
                             Tm(1, <<At("hv", "mt", 0)>>), Tm(1, <<At("hv", "DWJ", 0)>>),
                             Tm(1, <<At2("h2", "", 0, <<Sym("GHI"), Sym("GHJ")>>)>>)>>),
                        St("dp", "q0", 0, "radd", <<>>,
                           <<Tm(2, <<Sym("RHOIJ1"), At("sp", "m", 0)>>), Tm(1, <<Sym("EPS")>>)>>)>>])
          ELSE Body(Attrs(4, 2, <<3, 1>>),
            [initialize |-> <<St("dp", "p1", 0, "set", <<>>, <<Tm(3, <<>>)>>)>>,
             loop |-> <<St("dp", "p1", 0, "add", <<>>,
                           <<Tm(1, <<SymK("DWI", 1)>>), Tm(1, <<SymK("VIJ", 0), At("dp", "h", 0)>>),
                             Tm(1, <<At2("kw", "", 0, <<At("sp", "h", 0)>>)>>)>>)>>])]]
\* P3: loop_all (N_NBRS, neighbour sums), initialize_pair, py_initialize, reduce
P3 == [prog |-> <<Grp(10, TRUE, FALSE, 1,
                      <<Eq(1, 0, <<0, 1>>, <<"py_initialize", "initialize_pair", "loop_all", "reduce">>)>>)>>,
       body |-> [b1 \in {"1"} |-> Body(Attrs(2, 3, <<5, 7>>),
          [py_initialize |-> <<St("dc", "cin", 1, "set", <<>>,
                                  <<Tm(1, <<At("t", "", 0)>>), Tm(1, <<At("at", "ca", 0)>>)>>)>>,
           initialize_pair |-> <<St("dp", "p0", 0, "nc", <<>>,
                                    <<Tm(1, <<At("sc", "cin", 0)>>), Tm(1, <<At("dc", "cin", 1)>>)>>)>>,
           loop_all |-> <<St("dp", "p1", 0, "add", <<>>,
                             <<Tm(1, <<At("nn", "", 0), At("dp", "m", 0)>>), Tm(1, <<At("nsum", "m", 0)>>)>>),
                          St("dc", "cacc", 0, "add", <<>>, <<Tm(1, <<At("nn", "", 0)>>)>>)>>,
           reduce |-> <<St("dc", "cacc", 1, "set", <<>>,
                           <<Tm(1, <<At("psum", "p1", 0)>>), Tm(1, <<At("dc", "cacc", 0)>>)>>)>>])]]
\* P4: an iterated group (two passes), all particles, strided slot
P4 == [prog |-> <<Grp(10, FALSE, TRUE, 2,
                      <<Eq(1, 1, <<1, 0>>, <<"initialize", "loop">>)>>),
                  Grp(11, TRUE, FALSE, 1, <<Eq(2, 0, <<1>>, <<"loop", "post_loop">>)>>)>>,
       body |-> [b \in {"1", "2"} |->
          IF b = "1" THEN Body(Attrs(1, 2, <<1, 1>>),
            [initialize |-> <<St("dp", "p1", 1, "nc", <<>>, <<Tm(1, <<At("at", "ci", 0)>>)>>)>>,
             loop |-> <<St("dp", "p0", 0, "add", <<>>, <<Tm(1, <<At("rij", "", 0), At("dp", "p1", 1)>>)>>)>>])
          ELSE Body(Attrs(1, 2, <<1, 1>>),
            [loop |-> <<St("dp", "p1", 0, "add", <<>>, <<Tm(1, <<At("sp", "p0", 0)>>), Tm(1, <<At("rsq", "", 0)>>)>>)>>,
             post_loop |-> <<St("dp", "p0", 0, "nc", <<>>, <<Tm(1, <<At("dp", "p1", 0)>>)>>)>>])]]
\* P5 / P6: every scalar symbol, every vector symbol component
P5 == [prog |-> <<Grp(10, TRUE, FALSE, 1, <<Eq(1, 0, <<0, 1>>, <<"loop">>)>>)>>,
       body |-> [b1 \in {"1"} |-> Body(Attrs(1, 1, <<1, 1>>),
          [loop |-> <<St("dp", "p0", 0, "add", <<>>,
                         <<Tm(1, <<Sym("HIJ")>>), Tm(2, <<Sym("R2IJ")>>), Tm(3, <<Sym("RIJ")>>),
                           Tm(5, <<Sym("RHOIJ")>>), Tm(7, <<Sym("WIJ")>>), Tm(11, <<Sym("WI")>>),
                           Tm(13, <<Sym("WJ")>>), Tm(17, <<Sym("WDP")>>)>>),
                      St("dp", "p1", 0, "add", <<>>,
                         <<Tm(1, <<Sym("WDASHI")>>), Tm(2, <<Sym("WDASHJ")>>), Tm(3, <<Sym("WDASHIJ")>>),
                           Tm(5, <<Sym("GHI")>>), Tm(7, <<Sym("GHJ")>>), Tm(11, <<Sym("GHIJ")>>)>>)>>])]]
P6 == [prog |-> <<Grp(10, TRUE, FALSE, 1, <<Eq(1, 1, <<0>>, <<"loop">>)>>)>>,
       body |-> [b1 \in {"1"} |-> Body(Attrs(1, 1, <<1, 1>>),
          [loop |-> <<St("dp", "p0", 0, "add", <<>>,
                         <<Tm(1, <<SymK("XIJ", 0)>>), Tm(2, <<SymK("XIJ", 1)>>), Tm(3, <<SymK("XIJ", 2)>>),
                           Tm(5, <<SymK("VIJ", 0)>>), Tm(7, <<SymK("VIJ", 1)>>), Tm(11, <<SymK("VIJ", 2)>>)>>),
                      St("dp", "p1", 1, "add", <<>>,
                         <<Tm(1, <<SymK("DWIJ", 0)>>), Tm(2, <<SymK("DWIJ", 1)>>), Tm(3, <<SymK("DWIJ", 2)>>),
                           Tm(5, <<SymK("DWI", 0)>>), Tm(7, <<SymK("DWI", 1)>>), Tm(11, <<SymK("DWI", 2)>>),
                           Tm(13, <<SymK("DWJ", 0)>>), Tm(17, <<SymK("DWJ", 1)>>), Tm(19, <<SymK("DWJ", 2)>>)>>)>>])]]
Programs == <<P1, P2, P3, P4, P5, P6>>

\* ---- data ----------------------------------------------------------------
Stride == [x |-> 1, y |-> 1, z |-> 1, h |-> 1, m |-> 1, rho |-> 1, u |-> 1, v |-> 1,
           w |-> 1, p0 |-> 1, p1 |-> 2, q0 |-> 1]
Types == [x |-> "double", y |-> "double", z |-> "double", h |-> "double", m |-> "double",
          rho |-> "double", u |-> "double", v |-> "double", w |-> "double",
          p0 |-> "double", p1 |-> "long", q0 |-> "double"]
MkArr(a, nreal, pos, hs) ==
    [nreal |-> nreal, nall |-> 2, stv |-> 0, spv |-> 2,
     p |-> [x |-> pos, y |-> <<0, 0>>, z |-> <<0, 0>>, h |-> hs,
            m |-> <<1 + a, 3>>, rho |-> <<2 + 4 * a, 4>>, u |-> <<a, 2>>,
            v |-> <<1, -1>>, w |-> <<0, 3 - a>>,
            p0 |-> <<1, a>>, p1 |-> <<0, 1, 2, 3>>, q0 |-> <<<<0, 1>>, <<1, 2>>>>],
     c |-> [cin |-> <<3 + a, 0>>, cacc |-> <<0, 0>>]]
Case(k, pos0, pos1, h0, h1, nr1) ==
    [dim |-> 1, t |-> 3, dt |-> 2, kern |-> [ka |-> 3, dim |-> 1],
     prog |-> Programs[k].prog, body |-> Programs[k].body,
     env |-> [cond |-> [g \in {"10", "11"} |-> <<TRUE, TRUE>>],
              conv |-> [e \in {"1", "2"} |-> <<TRUE, TRUE, TRUE>>]],
     stride |-> Stride, types |-> Types, rat |-> <<"q0">>,
     arr |-> <<MkArr(0, 2, pos0, h0), MkArr(1, nr1, pos1, h1)>>]

Lattice == 0..2
Hs == {2, 6}
Init ==
    /\ \E k \in DOMAIN Programs, p0 \in Lattice \X Lattice, p1 \in Lattice \X Lattice,
          h0 \in Hs \X Hs, h1 \in Hs \X Hs, nr1 \in {1, 2} :
          x = Case(k, p0, p1, h0, h1, nr1)
    /\ res = [done |-> FALSE]
Next ==
    /\ ~res.done
    /\ x' = x
    /\ LET A == Arr0(x)
           nb == NbrsOfData(A, x.stride)
           log == SpecLog(x)
           rev == RevLoops(log)
       IN res' = [done |-> TRUE, W |-> EvalLog(x, log, nb), R |-> EvalLog(x, rev, nb),
                  log |-> log, rev |-> rev, nb |-> nb]
Spec == Init /\ [][Next]_vars

\* ---- theorems ------------------------------------------------------------
A0 == Arr0(x)
Particles == {<<a, i>> : a \in 0..1, i \in 0..1}
PC(p, q) ==      \* pair context: destination p, source q
    [dx |-> Vec3(A0[p[1]], x.stride, p[2], "x", "y", "z"), sx |-> Vec3(A0[q[1]], x.stride, q[2], "x", "y", "z"),
     dv |-> Vec3(A0[p[1]], x.stride, p[2], "u", "v", "w"), sv |-> Vec3(A0[q[1]], x.stride, q[2], "u", "v", "w"),
     dh |-> PAt(A0[p[1]], x.stride, "h", p[2], 0), sh |-> PAt(A0[q[1]], x.stride, "h", q[2], 0),
     drho |-> PAt(A0[p[1]], x.stride, "rho", p[2], 0), srho |-> PAt(A0[q[1]], x.stride, "rho", q[2], 0),
     K |-> x.kern]
Neg(v) == [k \in 1..3 |-> -v[k]]

TableOK == TableComplete /\ TableAcyclic
\* a level-by-level order is admissible for every single request and for all
RECURSIVE SeqFrom(_)
SeqFrom(S) == IF S = {} THEN <<>>
              ELSE LET m == CHOOSE v \in S : TRUE IN <<m>> \o SeqFrom(S \ {m})
SeqOfLevels(N) == Flat([k \in DOMAIN SymLevels |-> SeqFrom(SymLevels[k] \cap N)])
OrderOK == /\ \A n \in SymNames : GoodOrder(SeqOfLevels(Needed({n})), {n})
           /\ GoodOrder(SeqOfLevels(SymNames), SymNames)
           /\ Needed({"WIJ"}) = {"WIJ", "XIJ", "R2IJ", "RIJ", "HIJ"}
           /\ SymArrays({"WIJ"}) = {"d_x", "s_x", "d_y", "s_y", "d_z", "s_z", "d_h", "s_h"}
           /\ ~GoodOrder(<<"R2IJ", "XIJ">>, {"R2IJ"})
           /\ ~GoodOrder(<<"XIJ">>, {"R2IJ"})
\* symmetry / antisymmetry of the pair symbols; the rational ones
PairLaws ==
    \A p, q \in Particles :
        /\ XIJ(PC(p, q)) = Neg(XIJ(PC(q, p))) /\ VIJ(PC(p, q)) = Neg(VIJ(PC(q, p)))
        /\ HIJ(PC(p, q)) = HIJ(PC(q, p)) /\ R2IJ(PC(p, q)) = R2IJ(PC(q, p))
        /\ RHOIJ(PC(p, q)) = RHOIJ(PC(q, p))
        /\ 2 * HIJ(PC(p, q)) = PC(p, q).dh + PC(p, q).sh
        /\ RMul(RHOIJ1(PC(p, q)), RInt(RHOIJ(PC(p, q)))) = RInt(1)
        /\ RMul(EPS(PC(p, q)), RInt(100)) = RInt(HIJ(PC(p, q)) * HIJ(PC(p, q)))
        /\ IsRat(RHOIJ1(PC(p, q))) /\ IsRat(EPS(PC(p, q)))
        /\ SymVal("WI", 0, PC(p, q)) = SymVal("WJ", 0, PC(q, p)) - 2 * (XIJ(PC(q, p))[1] + 3 * XIJ(PC(q, p))[2] + 5 * XIJ(PC(q, p))[3])
\* the probe kernel tells d_h, s_h and HIJ apart wherever they differ
KernelDistinguishes ==
    \A p, q \in Particles :
        LET c == PC(p, q) IN
        c.dh # c.sh =>
            /\ Cardinality({SymVal("WI", 0, c), SymVal("WJ", 0, c), SymVal("WIJ", 0, c)}) = 3
            /\ Cardinality({SymVal("WDASHI", 0, c), SymVal("WDASHJ", 0, c), SymVal("WDASHIJ", 0, c)}) = 3
            /\ Cardinality({SymVal("GHI", 0, c), SymVal("GHJ", 0, c), SymVal("GHIJ", 0, c)}) = 3 \/ R2IJ(c) = 0
            /\ Cardinality({SymVec("DWI", c), SymVec("DWJ", c), SymVec("DWIJ", c)}) = 3 \/ XIJ(c) = <<0, 0, 0>>
            /\ SymVal("WDP", 0, c) # SymVal("WIJ", 0, c) \/ R2IJ(c) = 9 * HIJ(c) * HIJ(c)
\* the result does not depend on the order in which neighbours are visited
Deterministic == res.done => res.W = res.R
\* the reversed log is a behaviour the documented order allows
RevAllowed == res.done => Matches(NProg(x.prog), A0, res.nb, x.env, res.rev)
InRange == res.done => ~res.W.bad
\* frame: properties no statement targets, and every base property, are unchanged
Targets == UNION {UNION {{x.body[k][h][i].tn : i \in DOMAIN x.body[k][h]} : h \in Hooks} : k \in DOMAIN x.body}
Frame == res.done =>
    \A a \in 0..1 : /\ \A n \in DOMAIN A0[a].p : n \notin Targets => res.W.A[a].p[n] = A0[a].p[n]
                    /\ \A n \in DOMAIN A0[a].c : n \notin Targets => res.W.A[a].c[n] = A0[a].c[n]
WF == WellFormed(x)
EqDest(id) == LET E == ProgEqs(NProg(x.prog)) IN E[CHOOSE i \in DOMAIN E : E[i].eid = id].dest
\* ghosts are never destinations of a real group but always contribute as sources
GhostRule == res.done =>
    \A i \in DOMAIN res.log :
        /\ res.log[i].k = "loop" => res.log[i].s \in res.nb[<<EqDest(res.log[i].id), res.log[i].a, res.log[i].d>>]
=============================================================================
