---------------------------- MODULE EvalDataMC ----------------------------
(* Design check for C02: on a tiny universe (2 arrays x 2 particles on a    *)
(* 1-D lattice, every placement and every assignment of smoothing lengths,  *)
(* one ghost or none, six hand-written probe programs covering every        *)
(* statement form and every precomputed symbol) the interpreter of          *)
(* EvalData.tla is run and the sanity theorems below are checked in every   *)
(* state.  Evaluation happens in the Next step so that TLC's workers share  *)
(* the load.                                                                *)
EXTENDS EvalData, IOUtils

VARIABLES par, chk
vars == <<par, chk>>

At(k, n, i) == [k |-> k, n |-> n, i |-> i, a |-> <<>>]
At2(k, n, i, a) == [k |-> k, n |-> n, i |-> i, a |-> a]
Tm(c, f) == [c |-> c, f |-> f]
Op1(k, u) == [k |-> k, n |-> "", i |-> 0, a |-> <<u>>]
Op2(k, n, u, v) == [k |-> k, n |-> n, i |-> 0, a |-> <<u, v>>]
St(tk, tn, tc, op, lets, e) == [tk |-> tk, tn |-> tn, tc |-> tc, op |-> op, lets |-> lets, e |-> e]
Sym(n) == At("sym", n, 0)
SymK(n, k) == At("sym", n, k)
NoHooks == [py_initialize |-> <<>>, initialize |-> <<>>, initialize_pair |-> <<>>,
            loop_all |-> <<>>, loop |-> <<>>, post_loop |-> <<>>, reduce |-> <<>>]
Body(attrs, h) == [k \in DOMAIN NoHooks \cup {"attrs"} |->
                      IF k = "attrs" THEN attrs ELSE IF k \in DOMAIN h THEN h[k] ELSE <<>>]
Attrs(ca, ci, cv) == [ca |-> ca, ci |-> ci, cv |-> cv, cj |-> 2, ni |-> -2, nj |-> -7, be |-> 32]
Grp(gid, real, it, n, eqs) ==
    [gid |-> gid, real |-> real, start |-> 0, stop |-> -1, sprop |-> FALSE, pprop |-> FALSE,
     iterate |-> it, minit |-> n, maxit |-> n, hascond |-> FALSE, haspre |-> FALSE,
     haspost |-> FALSE, upd |-> FALSE, sub |-> <<>>, eqs |-> eqs]
Eq(eid, d, ss, hs) == [eid |-> eid, dest |-> d, srcs |-> ss, hooks |-> hs]

\* ---- six programs --------------------------------------------------------
\* P1: initialize / loop / post_loop, attributes, t, dt, non-commutative update
P1 == [prog |-> <<Grp(10, TRUE, FALSE, 1,
                      <<Eq(1, 0, <<0, 1>>, <<"initialize", "loop", "post_loop">>)>>)>>,
       body |-> [b1 \in {"1"} |-> Body(Attrs(2, 3, <<5, 7>>),
          [initialize |-> <<St("dp", "p0", 0, "set", <<>>,
                               <<Tm(1, <<At("at", "ca", 0)>>), Tm(1, <<At("t", "", 0)>>)>>)>>,
           loop |-> <<St("dp", "p0", 0, "add", <<>>,
                         <<Tm(1, <<At("sp", "m", 0), Sym("WIJ")>>), Tm(2, <<SymK("XIJ", 0)>>)>>),
                      St("dp", "p1", 1, "add", <<>>,
                         <<Tm(1, <<Sym("WI")>>), Tm(-1, <<Sym("WJ"), At("atv", "cv", 1)>>)>>)>>,
           post_loop |-> <<St("dp", "p0", 0, "nc", <<>>,
                              <<Tm(1, <<At("dt", "", 0), At("at", "ci", 0)>>)>>),
                           \* the arithmetic operators
                           St("dp", "p1", 0, "add", <<>>,
                              <<Tm(1, <<Op2("pow", "", At("il", "", 2), At("at", "ci", 0))>>),
                                Tm(1, <<Op2("pow", "", At("dp", "v", 0), At("at", "cj", 0))>>),
                                Tm(1, <<Op2("mod", "", At("dp", "v", 0), At("il", "", 3))>>),
                                Tm(1, <<Op2("mod", "", At("at", "ci", 0), At("at", "ni", 0))>>),
                                Tm(1, <<Op2("fdiv", "", At("at", "nj", 0), At("at", "cj", 0))>>),
                                Tm(1, <<Op2("fdiv", "", At("dp", "v", 0), At("c", "", 2))>>),
                                Tm(1, <<Op2("max", "", At("dp", "v", 0), At("at", "ci", 0))>>),
                                Tm(1, <<Op2("min", "", At("dp", "w", 0), At("at", "ca", 0))>>),
                                Tm(2, <<Op2("cmp", "lt", At("dp", "v", 0), At("dp", "w", 0))>>),
                                Tm(2, <<Op2("cmp", "ge", At("dp", "u", 0), At("il", "", 1))>>),
                                Tm(1, <<Op2("and", "", At("dp", "u", 0), At("at", "ca", 0))>>),
                                Tm(1, <<Op2("or", "", At("dp", "u", 0), At("at", "ca", 0))>>),
                                Tm(3, <<Op1("not", At("dp", "u", 0))>>),
                                Tm(1, <<Op1("abs", At("dp", "v", 0))>>),
                                Tm(1, <<Op1("uneg", At("dp", "m", 0))>>),
                                Tm(5, <<At("ovf", "", 0)>>)>>),
                           St("dp", "q0", 0, "radd", <<>>,
                              <<Tm(3, <<Op2("powq", "", At("il", "", 2), At("at", "ni", 0))>>)>>)>>])]]
\* P2: two destinations, gradients, helpers, matrix, rational symbols
P2 == [prog |-> <<Grp(10, FALSE, FALSE, 1,
                      <<Eq(1, 0, <<1>>, <<"loop">>), Eq(2, 1, <<0, 1>>, <<"initialize", "loop">>)>>)>>,
       body |-> [b \in {"1", "2"} |->
          IF b = "1" THEN Body(Attrs(1, 1, <<1, 1>>),
            [loop |-> <<St("dp", "p0", 0, "add",
                           <<<<Tm(1, <<SymK("DWIJ", 0)>>)>>, <<Tm(1, <<Sym("HIJ")>>)>>,
                             <<Tm(1, <<At("sp", "m", 0)>>)>>>>,
                           <<Tm(1, <<At("mat", "", 0), At("mat", "", 1)>>),
                             Tm(1, <<At("hv", "mt", 0)>>), Tm(1, <<At("hv", "DWJ", 0)>>),
                             Tm(1, <<At2("h2", "", 0, <<Sym("GHI"), Sym("GHJ")>>)>>)>>),
                        St("dp", "q0", 0, "radd", <<>>,
                           <<Tm(2, <<Sym("RHOIJ1"), At("sp", "m", 0)>>), Tm(1, <<Sym("EPS")>>),
                             Tm(3, <<At2("idiv", "", 0, <<At("at", "ci", 0), At("il", "", 2)>>),
                                     At("dp", "m", 0)>>)>>)>>])
          ELSE Body(Attrs(4, 2, <<3, 1>>),
            [initialize |-> <<St("dp", "p1", 0, "set", <<>>, <<Tm(3, <<>>)>>)>>,
             loop |-> <<St("dp", "p1", 0, "add", <<>>,
                           <<Tm(1, <<SymK("DWI", 1)>>), Tm(1, <<SymK("VIJ", 0), At("dp", "h", 0)>>),
                             Tm(1, <<At2("kw", "", 0, <<At("sp", "h", 0)>>)>>)>>)>>])]]
\* P3: loop_all (N_NBRS, neighbour sums), initialize_pair, py_initialize, reduce
P3 == [prog |-> <<Grp(10, TRUE, FALSE, 1,
                      <<Eq(1, 0, <<0, 1>>, <<"py_initialize", "initialize_pair", "loop_all", "reduce">>)>>)>>,
       body |-> [b1 \in {"1"} |-> Body(Attrs(2, 3, <<5, 7>>),
          [py_initialize |-> <<St("dc", "cin", 1, "set", <<>>,
                                  <<Tm(1, <<At("t", "", 0)>>), Tm(1, <<At("at", "ca", 0)>>)>>)>>,
           initialize_pair |-> <<St("dp", "p0", 0, "nc", <<>>,
                                    <<Tm(1, <<At("sc", "cin", 0)>>), Tm(1, <<At("dc", "cin", 1)>>)>>)>>,
           loop_all |-> <<St("dp", "p1", 0, "add", <<>>,
                             <<Tm(1, <<At("nn", "", 0), At("dp", "m", 0)>>), Tm(1, <<At("nsum", "m", 0)>>)>>),
                          St("dc", "cacc", 0, "add", <<>>, <<Tm(1, <<At("nn", "", 0)>>)>>)>>,
           reduce |-> <<St("dc", "cacc", 1, "set", <<>>,
                           <<Tm(1, <<At("psum", "p1", 0)>>), Tm(1, <<At("dc", "cacc", 0)>>)>>)>>])]]
\* P4: an iterated group (two passes), all particles, strided slot
P4 == [prog |-> <<Grp(10, FALSE, TRUE, 2,
                      <<Eq(1, 1, <<1, 0>>, <<"initialize", "loop">>)>>),
                  Grp(11, TRUE, FALSE, 1, <<Eq(2, 0, <<1>>, <<"loop", "post_loop">>)>>)>>,
       body |-> [b \in {"1", "2"} |->
          IF b = "1" THEN Body(Attrs(1, 2, <<1, 1>>),
            [initialize |-> <<St("dp", "p1", 1, "nc", <<>>, <<Tm(1, <<At("at", "ci", 0)>>)>>)>>,
             loop |-> <<St("dp", "p0", 0, "add", <<>>, <<Tm(1, <<At("rij", "", 0), At("dp", "p1", 1)>>)>>)>>])
          ELSE Body(Attrs(1, 2, <<1, 1>>),
            [loop |-> <<St("dp", "p1", 0, "add", <<>>, <<Tm(1, <<At("sp", "p0", 0)>>), Tm(1, <<At("rsq", "", 0)>>)>>)>>,
             post_loop |-> <<St("dp", "p0", 0, "nc", <<>>, <<Tm(1, <<At("dp", "p1", 0)>>)>>)>>])]]
\* P5 / P6: every scalar symbol, every vector symbol component
P5 == [prog |-> <<Grp(10, TRUE, FALSE, 1, <<Eq(1, 0, <<0, 1>>, <<"loop">>)>>)>>,
       body |-> [b1 \in {"1"} |-> Body(Attrs(1, 1, <<1, 1>>),
          [loop |-> <<St("dp", "p0", 0, "add", <<>>,
                         <<Tm(1, <<Sym("HIJ")>>), Tm(2, <<Sym("R2IJ")>>), Tm(3, <<Sym("RIJ")>>),
                           Tm(5, <<Sym("RHOIJ")>>), Tm(7, <<Sym("WIJ")>>), Tm(11, <<Sym("WI")>>),
                           Tm(13, <<Sym("WJ")>>), Tm(17, <<Sym("WDP")>>)>>),
                      St("dp", "p1", 0, "add", <<>>,
                         <<Tm(1, <<Sym("WDASHI")>>), Tm(2, <<Sym("WDASHJ")>>), Tm(3, <<Sym("WDASHIJ")>>),
                           Tm(5, <<Sym("GHI")>>), Tm(7, <<Sym("GHJ")>>), Tm(11, <<Sym("GHIJ")>>)>>)>>])]]
P6 == [prog |-> <<Grp(10, TRUE, FALSE, 1, <<Eq(1, 1, <<0>>, <<"loop">>)>>)>>,
       body |-> [b1 \in {"1"} |-> Body(Attrs(1, 1, <<1, 1>>),
          [loop |-> <<St("dp", "p0", 0, "add", <<>>,
                         <<Tm(1, <<SymK("XIJ", 0)>>), Tm(2, <<SymK("XIJ", 1)>>), Tm(3, <<SymK("XIJ", 2)>>),
                           Tm(5, <<SymK("VIJ", 0)>>), Tm(7, <<SymK("VIJ", 1)>>), Tm(11, <<SymK("VIJ", 2)>>)>>),
                      St("dp", "p1", 1, "add", <<>>,
                         <<Tm(1, <<SymK("DWIJ", 0)>>), Tm(2, <<SymK("DWIJ", 1)>>), Tm(3, <<SymK("DWIJ", 2)>>),
                           Tm(5, <<SymK("DWI", 0)>>), Tm(7, <<SymK("DWI", 1)>>), Tm(11, <<SymK("DWI", 2)>>),
                           Tm(13, <<SymK("DWJ", 0)>>), Tm(17, <<SymK("DWJ", 1)>>), Tm(19, <<SymK("DWJ", 2)>>)>>)>>])]]
Programs == <<P1, P2, P3, P4, P5, P6>>

\* ---- data ----------------------------------------------------------------
Stride == [x |-> 1, y |-> 1, z |-> 1, h |-> 1, m |-> 1, rho |-> 1, u |-> 1, v |-> 1,
           w |-> 1, p0 |-> 1, p1 |-> 2, q0 |-> 1]
Types == [x |-> "double", y |-> "double", z |-> "double", h |-> "double", m |-> "double",
          rho |-> "double", u |-> "double", v |-> "double", w |-> "double",
          p0 |-> "double", p1 |-> "long", q0 |-> "double", cin |-> "double",
          cacc |-> "double"]
MkArr(a, nreal, pos, hs) ==
    [nreal |-> nreal, nall |-> 2, stv |-> 0, spv |-> 2,
     p |-> [x |-> pos, y |-> <<0, 0>>, z |-> <<0, 0>>, h |-> hs,
            m |-> <<1 + a, 3>>, rho |-> <<2 + 4 * a, 4>>, u |-> <<a, 2>>,
            v |-> <<1, -1>>, w |-> <<0, 3 - a>>,
            p0 |-> <<1, a>>, p1 |-> <<0, 1, 2, 3>>, q0 |-> <<<<0, 1>>, <<1, 2>>>>],
     c |-> [cin |-> <<3 + a, 0>>, cacc |-> <<0, 0>>]]
Case(k, pos0, pos1, h0, h1, nr1) ==
    [dim |-> 1, t |-> 3, dt |-> 2, kern |-> [ka |-> 3, dim |-> 1],
     prog |-> Programs[k].prog, body |-> Programs[k].body,
     env |-> [cond |-> [g \in {"10", "11"} |-> <<TRUE, TRUE>>],
              conv |-> [e \in {"1", "2"} |-> <<TRUE, TRUE, TRUE>>]],
     stride |-> Stride, types |-> Types, rat |-> <<"q0">>,
     arr |-> <<MkArr(0, 2, pos0, h0), MkArr(1, nr1, pos1, h1)>>]

Lattice == 0..2
Hs == {2, 6}
\* the run may be split over several TLC processes, one per program (MC_K)
ProgSel == IF "MC_K" \in DOMAIN IOEnv
           THEN {k \in DOMAIN Programs : ToString(k) = IOEnv.MC_K}
           ELSE DOMAIN Programs
NoPos == <<-1, -1>>
XOf(p) == Case(p.k, p.p0, p.p1, p.h0, p.h1, p.nr1)
\* the state holds only the parameters of the case and the truth values of
\* the theorems (small states; the heavy evaluation happens in Next, shared
\* by TLC's workers)
Init ==
    /\ \E k \in ProgSel, h0 \in Hs \X Hs, h1 \in Hs \X Hs, nr1 \in {1, 2},
          p0 \in Lattice \X Lattice :
          par = [k |-> k, h0 |-> h0, h1 |-> h1, nr1 |-> nr1, p0 |-> p0, p1 |-> NoPos]
    /\ chk = [done |-> FALSE]

\* ---- theorems ------------------------------------------------------------
Particles == {<<a, i>> : a \in 0..1, i \in 0..1}
PC(x, p, q) ==      \* pair context: destination p, source q
    LET A0 == Arr0(x) IN
    [dx |-> Vec3(A0[p[1]], x.stride, p[2], "x", "y", "z"), sx |-> Vec3(A0[q[1]], x.stride, q[2], "x", "y", "z"),
     dv |-> Vec3(A0[p[1]], x.stride, p[2], "u", "v", "w"), sv |-> Vec3(A0[q[1]], x.stride, q[2], "u", "v", "w"),
     dh |-> PAt(A0[p[1]], x.stride, "h", p[2], 0), sh |-> PAt(A0[q[1]], x.stride, "h", q[2], 0),
     drho |-> PAt(A0[p[1]], x.stride, "rho", p[2], 0), srho |-> PAt(A0[q[1]], x.stride, "rho", q[2], 0),
     K |-> x.kern]
Neg(v) == [k \in 1..3 |-> -v[k]]

TableOK == TableComplete /\ TableAcyclic
RECURSIVE SeqFrom(_)
SeqFrom(S) == IF S = {} THEN <<>>
              ELSE LET m == CHOOSE v \in S : TRUE IN <<m>> \o SeqFrom(S \ {m})
\* a level-by-level order is admissible for every single request and for all
SeqOfLevels(N) == Flat([k \in DOMAIN SymLevels |-> SeqFrom(SymLevels[k] \cap N)])
OrderOK == /\ \A n \in SymNames : GoodOrder(SeqOfLevels(Needed({n})), {n})
           /\ GoodOrder(SeqOfLevels(SymNames), SymNames)
           /\ Needed({"WIJ"}) = {"WIJ", "XIJ", "R2IJ", "RIJ", "HIJ"}
           /\ SymArrays({"WIJ"}) = {"d_x", "s_x", "d_y", "s_y", "d_z", "s_z", "d_h", "s_h"}
           /\ ~GoodOrder(<<"R2IJ", "XIJ">>, {"R2IJ"})
           /\ ~GoodOrder(<<"XIJ">>, {"R2IJ"})
ASSUME TableOK
ASSUME OrderOK
\* symmetry / antisymmetry of the pair symbols; the rational ones
PairLaws(x) ==
    \A p, q \in Particles :
        LET c == PC(x, p, q)
            r == PC(x, q, p)
        IN
        /\ XIJ(c) = Neg(XIJ(r)) /\ VIJ(c) = Neg(VIJ(r))
        /\ HIJ(c) = HIJ(r) /\ R2IJ(c) = R2IJ(r)
        /\ RHOIJ(c) = RHOIJ(r)
        /\ 2 * HIJ(c) = c.dh + c.sh
        /\ RMul(RHOIJ1(c), RInt(RHOIJ(c))) = RInt(1)
        /\ RMul(EPS(c), RInt(100)) = RInt(HIJ(c) * HIJ(c))
        /\ IsRat(RHOIJ1(c)) /\ IsRat(EPS(c))
        /\ SymVal("WI", 0, c) = SymVal("WJ", 0, r) - 2 * (XIJ(r)[1] + 3 * XIJ(r)[2] + 5 * XIJ(r)[3])
\* the probe kernel tells d_h, s_h and HIJ apart wherever they differ
KernelDistinguishes(x) ==
    \A p, q \in Particles :
        LET c == PC(x, p, q) IN
        c.dh # c.sh =>
            /\ Cardinality({SymVal("WI", 0, c), SymVal("WJ", 0, c), SymVal("WIJ", 0, c)}) = 3
            /\ Cardinality({SymVal("WDASHI", 0, c), SymVal("WDASHJ", 0, c), SymVal("WDASHIJ", 0, c)}) = 3
            /\ Cardinality({SymVal("GHI", 0, c), SymVal("GHJ", 0, c), SymVal("GHIJ", 0, c)}) = 3 \/ R2IJ(c) = 0
            /\ Cardinality({SymVec("DWI", c), SymVec("DWJ", c), SymVec("DWIJ", c)}) = 3 \/ XIJ(c) = <<0, 0, 0>>
            /\ SymVal("WDP", 0, c) # SymVal("WIJ", 0, c) \/ R2IJ(c) = 9 * HIJ(c) * HIJ(c)
Targets(x) == UNION {UNION {{x.body[k][h][i].tn : i \in DOMAIN x.body[k][h]} : h \in Hooks} : k \in DOMAIN x.body}
EqDest(x, id) == LET E == ProgEqs(NProg(x.prog)) IN E[CHOOSE i \in DOMAIN E : E[i].eid = id].dest

\* Bind(v, F): F(v) with v evaluated exactly once (TLC re-evaluates LET
\* definitions at every use while it computes successor states)
Bind(v, F(_)) == CHOOSE r \in {F(u) : u \in {v}} : TRUE
Theorems(x) ==
    Bind(<<Arr0(x), NbrsOfData(Arr0(x), x.stride), SpecLog(x), Targets(x)>>, LAMBDA c1 :
    Bind(<<EvalLog(x, c1[3], c1[2]), RevLoops(c1[3])>>, LAMBDA c2 :
    Bind(EvalLog(x, c2[2], c1[2]), LAMBDA R :
    LET A == c1[1]
        nb == c1[2]
        log == c1[3]
        T == c1[4]
        W == c2[1]
        rev == c2[2]
    IN [done |-> TRUE,
        \* the result does not depend on the order in which neighbours are visited
        det |-> W = R,
        \* the reversed log is a behaviour the documented order allows
        rev |-> Matches(NProg(x.prog), A, nb, x.env, rev),
        \* the normal form used to compare logs identifies the two orders
        \* and leaves the mechanism's own (ascending) log unchanged
        norm |-> /\ NormLog(rev, DestOf(NProg(x.prog))) = NormLog(log, DestOf(NProg(x.prog)))
                 /\ NormLog(log, DestOf(NProg(x.prog))) = log
                 /\ OrderDiff(NProg(x.prog), rev, log) = 0,
        \* integer division: the truncating semantics gives another state
        \* exactly for the program that divides two integers inexactly (P2)
        cdiv |-> /\ (EvalLogM(x, log, nb, {"div"}) # W) = (x.prog = Programs[2].prog)
                 \* ... and % / // / long products exactly in P1 (negative operands)
                 /\ (EvalLogM(x, log, nb, {"floor"}) # W) = (x.prog = Programs[1].prog)
                 /\ (EvalLogM(x, log, nb, {"ovf"}) # W) = (x.prog = Programs[1].prog),
        inrange |-> ~W.bad,
        \* frame: properties no statement targets (all base properties) are unchanged
        frame |-> \A a \in 0..1 :
                    /\ \A n \in DOMAIN A[a].p : n \notin T => W.A[a].p[n] = A[a].p[n]
                    /\ \A n \in DOMAIN A[a].c : n \notin T => W.A[a].c[n] = A[a].c[n],
        wf |-> WellFormed(x),
        \* every source particle visited in a loop is a neighbour (ghosts included)
        nbr |-> \A i \in DOMAIN log :
                   log[i].k = "loop" => log[i].s \in nb[<<EqDest(x, log[i].id), log[i].a, log[i].d>>],
        \* (these two depend on the data only: evaluated with the first program)
        pair |-> x.prog # Programs[1].prog \/ PairLaws(x),
        kd |-> x.prog # Programs[1].prog \/ KernelDistinguishes(x),
        nev |-> Len(log)])))
Next ==
    /\ ~chk.done
    /\ \E p1 \in Lattice \X Lattice :
          /\ par' = [par EXCEPT !.p1 = p1]
          /\ chk' = Bind(XOf([par EXCEPT !.p1 = p1]), LAMBDA xx : Theorems(xx))
Spec == Init /\ [][Next]_vars

Deterministic == chk.done => chk.det
RevAllowed == chk.done => chk.rev
NormalForm == chk.done => chk.norm
CDivision == chk.done => chk.cdiv
InRange == chk.done => chk.inrange
Frame == chk.done => chk.frame
WF == chk.done => chk.wf
NbrRule == chk.done => chk.nbr
PairLawsHold == chk.done => chk.pair
KernelDistinguishesHolds == chk.done => chk.kd
NonTrivial == chk.done => chk.nev > 0
=============================================================================
