--------------------------- MODULE TimeStepHistMC ---------------------------
(***************************************************************************)
(* Design model for the history leg of C19: ONE integrator / solver object *)
(* is asked for the time step NAsks times while the particle arrays change *)
(* between the asks as a simulation changes them (an empty inlet starts to *)
(* emit particles with another h, an outlet drains, h changes).            *)
(*   property level:  AddParticles / RemoveAll / RemoveLast / SetH change  *)
(*                    the current arrays; the statement is memoryless:     *)
(*                    each answer must be Allowed(current arrays), the     *)
(*                    kept step the step in force, the damped step the     *)
(*                    kept step times the documented damping factor        *)
(*                    (HFailedAt of TimeStep.tla)                          *)
(*   mechanism level: Ask runs the code's decision structure on the        *)
(*                    current arrays with the state the objects really     *)
(*                    keep between calls: solver.dt (last damped step) and *)
(*                    solver._damping_factor (HM_Step of TimeStep.tla)     *)
(* Invariant Documented: every ask of every history satisfies the          *)
(* statement.  HDf seeds a defect in the mechanism (a cache of the set of  *)
(* non-empty arrays that survives the changes; double damping of the kept  *)
(* step): TLC must then find a violating history, which measures that the  *)
(* universe is sensitive to that class of behaviour.                       *)
(*                                                                         *)
(* Universe: NArr arrays, each with one of the property sets of HasH,      *)
(* initially empty or with one particle; between two asks 1..MaxOps        *)
(* changes; h in HVals, dt_cfl in CVals, dt_adapt in AVals; n_damp in      *)
(* NDamps.  Every complete history is printed (Emit) and replayed into the *)
(* real objects by the check.                                              *)
(***************************************************************************)
EXTENDS TimeStep, TLC, Json

CONSTANTS NArr, NAsks, MaxOps, MaxReal, HVals, AVals, CVals, NDamps, Cfl, Dt,
          HDf, Emit

\* named value sets (a .cfg cannot contain tuples)
H2 == {<<1, 2>>, <<2, 1>>}
H3 == {<<1, 2>>, <<1, 1>>, <<2, 1>>}
A1 == {<<1, 8>>}
A2 == {<<0, 1>>, <<1, 8>>}
C1 == {<<4, 1>>}
C2 == {<<0, 1>>, <<4, 1>>}
CflHalf == <<1, 2>>
Dt1000 == <<1000, 1>>

VARIABLES H,      \* the history so far: [cfl, dt, fixed_h, ndamp, init, asks]
          cur,    \* the current arrays
          ops,    \* changes since the last ask
          sdt,    \* solver.dt
          sfac    \* solver._damping_factor
vars == <<H, cur, ops, sdt, sfac>>

Flags(a, c) == [adapt |-> a, cfl |-> c, force |-> FALSE, visc |-> FALSE]
HasH == {Flags(FALSE, FALSE), Flags(FALSE, TRUE), Flags(TRUE, FALSE)}
PartU(hs) == [h : HVals,
              adapt : IF hs.adapt THEN AVals ELSE {Zero},
              cfl   : IF hs.cfl   THEN CVals ELSE {Zero},
              force : {Zero}, visc : {Zero}]
ArrInit == UNION {{[has |-> hs, real |-> r, ghost |-> <<>>] :
                   r \in {<<>>} \cup {<<p>> : p \in PartU(hs)}} : hs \in HasH}
NoPart == <<>>
Op(o, a, i, h, ps) == [op |-> o, a |-> a, i |-> i, h |-> h, parts |-> ps]

Init ==
    /\ \E arrs \in [1 .. NArr -> ArrInit], nd \in NDamps :
         /\ H = [cfl |-> Cfl, dt |-> Dt, fixed_h |-> FALSE, ndamp |-> nd,
                 init |-> arrs, asks |-> <<>>]
         /\ cur = arrs
    /\ ops = <<>>
    /\ sdt = Dt /\ sfac = One

Asked == Len(H.asks)
\* changes happen during a solver step, i.e. after the first ask
CanChange == Asked >= 1 /\ Asked < NAsks /\ Len(ops) < MaxOps

AddParticles ==
    /\ CanChange
    /\ \E a \in 1 .. NArr : \E p \in PartU(cur[a].has) :
         /\ Len(cur[a].real) < MaxReal
         /\ ops' = Append(ops, Op("add", a, 0, Zero, <<p>>))
         /\ cur' = ApplyOp(cur, Op("add", a, 0, Zero, <<p>>))
    /\ UNCHANGED <<H, sdt, sfac>>

RemoveAll ==
    /\ CanChange
    /\ \E a \in 1 .. NArr :
         /\ Len(cur[a].real) > 0
         /\ ops' = Append(ops, Op("removeall", a, 0, Zero, NoPart))
         /\ cur' = ApplyOp(cur, Op("removeall", a, 0, Zero, NoPart))
    /\ UNCHANGED <<H, sdt, sfac>>

RemoveLast ==
    /\ CanChange
    /\ \E a \in 1 .. NArr :
         /\ Len(cur[a].real) > 1
         /\ ops' = Append(ops, Op("removelast", a, 0, Zero, NoPart))
         /\ cur' = ApplyOp(cur, Op("removelast", a, 0, Zero, NoPart))
    /\ UNCHANGED <<H, sdt, sfac>>

SetH ==
    /\ CanChange
    /\ \E a \in 1 .. NArr : \E i \in 1 .. Len(cur[a].real) :
       \E h \in HVals \ {cur[a].real[i].h} :
         /\ ops' = Append(ops, Op("seth", a, i, h, NoPart))
         /\ cur' = ApplyOp(cur, Op("seth", a, i, h, NoPart))
    /\ UNCHANGED <<H, sdt, sfac>>

\* the solver asks (the integrator's step has updated the NNPS / domain)
Ask ==
    /\ Asked < NAsks
    /\ Asked >= 1 => Len(ops) >= 1
    /\ LET k == Asked + 1
           Hq == [id |-> "mc"] @@
                 [H EXCEPT !.asks = Append(@, [ops |-> ops, arrays |-> cur,
                                               count |-> k - 1,
                                               res |-> NoneV, kept |-> NoneV,
                                               step |-> NoneV])]
           m == HM_Step(Hq, k, HDf, sdt, sfac)
       IN /\ H' = [H EXCEPT !.asks = Append(@, [ops |-> ops, arrays |-> cur,
                                                count |-> k - 1,
                                                res |-> m.res,
                                                kept |-> m.kept,
                                                step |-> m.step])]
          /\ sdt' = m.sdt /\ sfac' = m.sfac
          /\ (Emit /\ k = NAsks) =>
                PrintT(<<"HIST", ToJson([cfl |-> H.cfl, dt |-> H.dt,
                                         fixed_h |-> H.fixed_h,
                                         ndamp |-> H.ndamp, init |-> H.init,
                                         asks |-> [j \in 1 .. k |->
                                            [ops |-> H'.asks[j].ops,
                                             arrays |-> H'.asks[j].arrays,
                                             count |-> j - 1]]])>>)
    /\ ops' = <<>>
    /\ UNCHANGED cur

Next == AddParticles \/ RemoveAll \/ RemoveLast \/ SetH \/ Ask
Spec == Init /\ [][Next]_vars

\* the statement, for the last ask of every history prefix (no masking)
Documented ==
    Asked >= 1 => HFailedAt([id |-> "mc"] @@ H, Asked) = {}
\* the step-wise mechanism is the functional one used for trace validation
Functional ==
    Asked >= 1 =>
        LET m == HM([id |-> "mc"] @@ H, Asked, HDf)
        IN /\ m.res = H.asks[Asked].res /\ m.kept = H.asks[Asked].kept
           /\ m.step = H.asks[Asked].step /\ m.sdt = sdt /\ m.sfac = sfac
=============================================================================
