---------------------------- MODULE IntegratorMC ----------------------------
(***************************************************************************)
(* Design check of C04: over a complete small universe of generated        *)
(* integrators (programs), steppers and particle arrays, the log produced  *)
(* by the op-list machine (Integrator.tla) satisfies every clause of the   *)
(* property layer (IntegratorProps.tla), and the data invariants below.    *)
(*                                                                         *)
(* Program grammar (S stages, ne equation sets):                           *)
(*   [initialize] block(1) ... block(S)                                    *)
(*   block(s) = [accel(i) | accel(i, update_nnps=False)] stage(s)          *)
(*              [update_domain] post(frac_s, s) [accel(i)] [update_domain] *)
(* with i = (s - 1) mod ne.  With Emit the programs are printed so that    *)
(* the harness generates real integrators from them.                       *)
(***************************************************************************)
EXTENDS Integrator, Json

CONSTANTS MaxS,        \* stages 1..MaxS
          AccShapes,   \* subset of {"none", "pre", "preF", "post"}, S <= 2
          DomShapes,   \* subset of {"none", "mid", "end"}, S <= 2
          AccShapes3, DomShapes3,      \* the same for S = 3
          PatSets,     \* set of sequences of stepper patterns (1-2 arrays)
          NReals, NGhosts, StepSets, Periodics,
          Emit

OpRec(op, m, i, u, num, den, n) ==
    [op |-> op, m |-> m, i |-> i, nnps |-> u, num |-> num, den |-> den,
     n |-> n]
StageOp(m)    == OpRec("stage", m, 0, FALSE, 0, 1, 0)
AccelOp(i, u) == OpRec("accel", 0, i, u, 0, 1, 0)
DomOp         == OpRec("domain", 0, 0, FALSE, 0, 1, 0)
PostOp(f, n)  == OpRec("post", 0, 0, FALSE, f[1], f[2], n)

FracMenus(S) ==
    CASE S = 1 -> {<< <<1, 1>> >>, << <<1, 2>> >>}
      [] S = 2 -> {<< <<1, 2>>, <<1, 1>> >>, << <<1, 1>>, <<1, 1>> >>}
      [] S = 3 -> {<< <<1, 4>>, <<3, 4>>, <<1, 1>> >>,
                   << <<1, 1>>, <<1, 1>>, <<1, 1>> >>}

Block(s, ne, acc, dom, f) ==
    LET i == (s - 1) % ne
    IN (IF acc = "pre" THEN <<AccelOp(i, TRUE)>>
        ELSE IF acc = "preF" THEN <<AccelOp(i, FALSE)>> ELSE <<>>)
       \o <<StageOp(s)>>
       \o (IF dom = "mid" THEN <<DomOp>> ELSE <<>>)
       \o <<PostOp(f, s)>>
       \o (IF acc = "post" THEN <<AccelOp(i, TRUE)>>
           ELSE IF acc = "postF" THEN <<AccelOp(i, FALSE)>> ELSE <<>>)
       \o (IF dom = "end" THEN <<DomOp>> ELSE <<>>)

RECURSIVE Blocks(_, _, _, _, _)
Blocks(s, ne, acc, dom, fr) ==
    IF s = 0 THEN <<>>
    ELSE Blocks(s - 1, ne, acc, dom, fr) \o Block(s, ne, acc[s], dom[s], fr[s])

Programs ==
    UNION {
      {[S |-> S, ne |-> ne, init |-> ini,
        ops |-> (IF ini THEN <<StageOp(0)>> ELSE <<>>)
                \o Blocks(S, ne, acc, dom, fr)] :
          ne \in 1..(IF S = 1 THEN 1 ELSE 2), ini \in BOOLEAN,
          acc \in [1..S -> IF S = 3 THEN AccShapes3 ELSE AccShapes],
          dom \in [1..S -> IF S = 3 THEN DomShapes3 ELSE DomShapes],
          fr \in FracMenus(S)} : S \in 1..MaxS}

(***************************************************************************)
(* Stepper patterns: which of initialize/stageM/py_stageM exist.           *)
(***************************************************************************)
MRecP(loop, py, mv, pyw, pop) ==
    [loop |-> loop, py |-> py, mv |-> mv, pyw |-> pyw, pop |-> pop]
MRec(loop, py, mv, pyw) == MRecP(loop, py, mv, pyw, "none")
Pattern(name, S) ==
    [q \in 1..(S + 1) |->
       LET m == q - 1 IN
       CASE name = "L" -> MRec(TRUE, FALSE, IF m = 1 THEN 1 ELSE 0, FALSE)
         [] name = "P" -> MRec(TRUE, m >= 1, IF m = S THEN -1 ELSE 0, FALSE)
         [] name = "O" -> MRec(m # 1, m = 1,
                               IF m = S /\ S > 1 THEN 1 ELSE 0, FALSE)
         [] name = "W" -> MRec(TRUE, m >= 1, 0, m = 1)
         [] name = "N" -> MRec(m <= 1, FALSE, 0, FALSE)
         \* hooks that change the population of their array:
         \* A: py_initialize and py_stage1 add a particle
         \* G: py_stage1 turns a real particle into a ghost; stage S moves
         \* R: the hook of the last stage removes a particle, py_stage1 adds
         [] name = "A" -> MRecP(TRUE, m <= 1, IF m = S THEN 1 ELSE 0, FALSE,
                                IF m <= 1 THEN "add" ELSE "none")
         [] name = "G" -> MRecP(TRUE, m >= 1, IF m = S THEN 1 ELSE 0, FALSE,
                                IF m = 1 THEN "ghost" ELSE "none")
         [] name = "R" -> MRecP(TRUE, m >= 1, 0, FALSE,
                                IF m = S THEN "remove"
                                ELSE IF m = 1 THEN "add" ELSE "none")]

Names == <<"a", "b", "c">>
X0(ai, p, ghost) == IF ai = 1 THEN (IF ghost THEN 2 ELSE p - 1)
                    ELSE IF ai = 2 THEN (IF ghost THEN 6 ELSE 2 * p + 1)
                    ELSE (IF ghost THEN 10 ELSE 7 + p)
Particle(ai, p, ghost, uid) ==
    [x |-> X0(ai, p, ghost), s |-> 1 + p + 4 * ai, v |-> 0, au |-> 0,
     g |-> ghost, uid |-> uid]

StepsOf(n) == IF n = 1 THEN << [t |-> 8, dt |-> 4] >>
              ELSE << [t |-> 8, dt |-> 4], [t |-> 12, dt |-> 8] >>

NDom(prog, ns) ==
    ns * Cardinality({k \in 1..Len(prog.ops) : prog.ops[k].op = "domain"})

\* The arrays of one case: array ai has stepper pattern pats[ai] and the
\* stepper attribute k0 = ai.  Arrays with the same pattern get instances of
\* the SAME stepper class constructed with DIFFERENT k (PatsD).
CasesFor(pats) ==
    {[id |-> "d", e |-> 0, vis |-> TRUE, ops |-> prog.ops,
      arrs |-> [ai \in 1..Len(pats) |->
                  [name |-> Names[ai], nreal |-> nr[ai], k0 |-> ai,
                   meth |-> Pattern(pats[ai], prog.S)]],
      steps |-> StepsOf(ns),
      init |-> [ai \in 1..Len(pats) |->
                  [p \in 1..(nr[ai] + ng[ai]) |->
                     Particle(ai, IF p <= nr[ai] THEN p ELSE p - nr[ai],
                              p > nr[ai], p - 1)]],
      periodic |-> per,
      dom |-> IF per
              THEN [d \in 1..NDom(prog, ns) |->
                      [ai \in 1..Len(pats) |->
                         IF nr[ai] > 0
                         THEN << [src |-> nr[ai] - 1, sh |-> 16] >>
                         ELSE << >>]]
              ELSE << >>] :
        prog \in Programs,
        nr \in [1..Len(pats) -> NReals], ng \in [1..Len(pats) -> NGhosts],
        ns \in StepSets, per \in Periodics}

\* every method the program calls exists on some stepper (else the real
\* thing does not compile); canonical: unused second entries are 0
WellFormed(c) ==
    /\ \A k \in 1..Len(c.ops) :
         c.ops[k].op = "stage" =>
            \E ai \in 1..Len(c.arrs) :
                LET d == c.arrs[ai].meth[c.ops[k].m + 1] IN d.loop \/ d.py

\* named values for the cfg files
PatsA == {<<"L">>, <<"P">>, <<"O">>, <<"W">>, <<"P", "N">>, <<"L", "P">>,
          <<"O", "L">>}
PatsB == {<<"P">>, <<"O">>, <<"L", "P">>, <<"P", "N">>}
PatsC == {<<"L", "P">>}
PatsD == {<<"L", "P", "L">>, <<"W", "O", "W">>}
PatsE == {<<"A">>, <<"G">>, <<"R">>, <<"G", "A">>, <<"L", "R">>}

NoStates == pc < 0       \* CONSTRAINT of the run that only prints
\* (enumerated pattern set by pattern set: TLC need not normalise the union)
\* WellFormed is a filter, not a conjunct of Init: TLC would enumerate
\* every witness of its existential quantifiers as a separate initial state
Init == \E pats \in PatSets :
            \E c \in {x \in CasesFor(pats) : WellFormed(x)} : Start(c, FALSE)
Spec == Init /\ [][Next]_vars

ASSUME Emit => \A p \in Programs : PrintT(<<"PROG", ToJson(p)>>)
ASSUME Emit => \A nm \in {"L", "P", "O", "W", "N", "A", "G", "R"} : \A S \in 1..MaxS :
                  PrintT(<<"PAT", ToJson([name |-> nm, S |-> S,
                                          meth |-> Pattern(nm, S)])>>)

-----------------------------------------------------------------------------
(* Invariants *)

\* M => P: the machine's complete log satisfies every clause
LogOK == Done => FailedLog(case, log) = {}

\* no stage ever touches a ghost (without a periodic domain the ghosts of
\* the initial state stay exactly as they were)
GhostsUntouched ==
    ~ case.periodic =>
        \A ai \in 1..NArr : \A q \in 1..Len(case.init[ai]) :
            case.init[ai][q].g =>
                \E p \in 1..Len(parts[ai]) :
                    /\ parts[ai][p].uid = case.init[ai][q].uid
                    /\ parts[ai][p].g /\ p > NR(ai)
                    /\ parts[ai][p].v = 0
                    /\ parts[ai][p].s = case.init[ai][q].s
                    /\ parts[ai][p].x = case.init[ai][q].x

\* the real particles come first in every array
RealsFirst ==
    \A ai \in 1..NArr : \A p \in 1..Len(parts[ai]) :
        parts[ai][p].g = (p > NR(ai))

\* with a periodic domain: right after update_domain every ghost is a copy
\* of a real particle
GhostsAreCopies ==
    (case.periodic /\ Len(log) > 0 /\ log[Len(log)].ev = "domain") =>
        \A ai \in 1..NArr : \A p \in 1..Len(parts[ai]) :
            p > NR(ai) =>
                \E q \in 1..NR(ai) :
                    /\ parts[ai][p].s = parts[ai][q].s
                    /\ parts[ai][p].v = parts[ai][q].v

\* every real particle has been visited once per compiled stage call so far
\* (hooks that change the population permute indices: then the total)
VisitsOK ==
    IF HasPop(case)
    THEN \A ai \in 1..NArr :
            Cardinality({x \in 1..Len(log) :
                log[x].ev = "visit" /\ log[x].a = case.arrs[ai].name})
            >= Cardinality({p \in 1..Len(parts[ai]) : parts[ai][p].v > 0})
    ELSE \A ai \in 1..NArr : \A p \in 1..NR(ai) :
            parts[ai][p].v =
                Cardinality({x \in 1..Len(log) :
                    log[x].ev = "visit" /\ log[x].a = case.arrs[ai].name
                    /\ log[x].i = p - 1})

\* the stage time is the step's t plus the last stage_dt
TimeOK == Done \/ (t = StageTime(case, (sj - 1) * NOps(case) + pc))
=============================================================================
